// Shared machinery of the /verif harness (engine E1..E4). Included into ipa-core's lib test
// crate as `crate::ipa_verif::common`.
//
// Model: every generated case is a pure function of a *choice sequence* (`&[u32]`). proptest
// generates and shrinks the choice sequences; the shrunk sequence is the replay file. Exhaustive
// sub-checks use the one-element sequence `[i]` for the i-th element of the enumerated space.

use std::{
    any::Any,
    collections::{BTreeMap, HashSet},
    hash::{Hash, Hasher},
    panic::{AssertUnwindSafe, catch_unwind},
    sync::{
        Mutex,
        atomic::{AtomicBool, AtomicU64, Ordering},
    },
    time::Instant,
};

use proptest::{
    strategy::{Strategy, ValueTree},
    test_runner::{Config, RngAlgorithm, TestCaseError, TestError, TestRng, TestRunner},
};
use serde_json::{Value, json};

// ---------------------------------------------------------------------------------------------
// choice source
// ---------------------------------------------------------------------------------------------

/// Reader over a choice sequence. Once exhausted it yields 0, which every mapping below turns
/// into the *simplest* alternative (smallest index, `false`, lowest bound), so shrinking a
/// sequence towards zeros shrinks the case.
pub struct Src<'a> {
    d: &'a [u32],
    i: usize,
}

#[allow(dead_code)]
impl<'a> Src<'a> {
    pub fn new(d: &'a [u32]) -> Self {
        Self { d, i: 0 }
    }
    pub fn used(&self) -> usize {
        self.i
    }
    /// the whole choice sequence of the case (to re-execute a case from a recorded position)
    pub fn all(&self) -> &'a [u32] {
        self.d
    }
    pub fn raw(&mut self) -> u32 {
        let v = self.d.get(self.i).copied().unwrap_or(0);
        self.i += 1;
        v
    }
    /// value in `0..n` (n >= 1), monotone in the raw choice.
    pub fn below(&mut self, n: u64) -> u64 {
        debug_assert!(n >= 1);
        if n <= 1 {
            // still consume one choice so that the layout of a case is position-stable
            self.raw();
            return 0;
        }
        if n <= (1 << 32) {
            (u64::from(self.raw()) * n) >> 32
        } else {
            let v = self.u64();
            ((u128::from(v) * u128::from(n)) >> 64) as u64
        }
    }
    pub fn idx(&mut self, n: usize) -> usize {
        self.below(n as u64) as usize
    }
    /// inclusive range
    pub fn range(&mut self, lo: u64, hi: u64) -> u64 {
        lo + self.below(hi - lo + 1)
    }
    pub fn urange(&mut self, lo: usize, hi: usize) -> usize {
        self.range(lo as u64, hi as u64) as usize
    }
    pub fn bool(&mut self) -> bool {
        self.raw() >= 0x8000_0000
    }
    /// true with probability num/den (false is the simple alternative)
    pub fn chance(&mut self, num: u64, den: u64) -> bool {
        self.below(den) >= den - num
    }
    pub fn pick<T: Clone>(&mut self, xs: &[T]) -> T {
        xs[self.idx(xs.len())].clone()
    }
    pub fn u64(&mut self) -> u64 {
        (u64::from(self.raw()) << 32) | u64::from(self.raw())
    }
    pub fn u128(&mut self) -> u128 {
        (u128::from(self.u64()) << 64) | u128::from(self.u64())
    }
    pub fn bytes(&mut self, n: usize) -> Vec<u8> {
        let mut v = Vec::with_capacity(n);
        while v.len() < n {
            let r = self.raw().to_le_bytes();
            for b in r {
                if v.len() < n {
                    v.push(b);
                }
            }
        }
        v
    }
    /// A `bits`-wide unsigned value, biased to boundary values: 0, 1, 2^k, 2^k-1, 2^k+1,
    /// all-ones, all-ones-1, and uniformly random otherwise.
    pub fn bits_val(&mut self, bits: u32) -> u128 {
        let mask: u128 = if bits >= 128 { u128::MAX } else { (1u128 << bits) - 1 };
        let class = self.below(10);
        let v = match class {
            0 => 0,
            1 => 1,
            2 => mask,
            3 => mask.wrapping_sub(1),
            4 => {
                let k = self.below(u64::from(bits.max(1))) as u32;
                1u128 << k
            }
            5 => {
                let k = self.below(u64::from(bits.max(1))) as u32;
                (1u128 << k).wrapping_sub(1)
            }
            6 => {
                let k = self.below(u64::from(bits.max(1))) as u32;
                (1u128 << k).wrapping_add(1)
            }
            _ => self.u128(),
        };
        v & mask
    }
    /// permutation of 0..n (Fisher-Yates driven by choices; all-zero choices = identity)
    pub fn perm(&mut self, n: usize) -> Vec<usize> {
        let mut p: Vec<usize> = (0..n).collect();
        for i in 0..n {
            let j = i + self.idx(n - i);
            p.swap(i, j);
        }
        p
    }
    /// a seed for code under test that needs one (TestWorld seed, StdRng seed)
    pub fn seed(&mut self) -> u64 {
        self.u64()
    }
}

// ---------------------------------------------------------------------------------------------
// outcome of one case
// ---------------------------------------------------------------------------------------------

pub struct CaseOk {
    /// non-trivial by the sub-check's stated rule
    pub nontrivial: bool,
    /// canonical digest of the case (for distinct counting)
    pub digest: u64,
    /// class labels for the distribution report
    pub labels: Vec<String>,
    /// lazily rendered sample
    pub sample: Value,
}

impl CaseOk {
    pub fn new<D: Hash>(nontrivial: bool, digest_of: &D, sample: Value) -> Self {
        Self { nontrivial, digest: digest(digest_of), labels: vec![], sample }
    }
    pub fn label(mut self, l: impl Into<String>) -> Self {
        self.labels.push(l.into());
        self
    }
    pub fn labels<I: IntoIterator<Item = String>>(mut self, l: I) -> Self {
        self.labels.extend(l);
        self
    }
}

pub struct Violation {
    /// stable identification of *what* fails (used for the known-findings file)
    pub signature: String,
    pub message: String,
    pub case: Value,
}

pub enum CaseErr {
    Violation(Violation),
    /// the generated choices do not describe a valid case (counted; must stay rare)
    Reject(String),
}

pub type CaseResult = Result<CaseOk, CaseErr>;

pub fn violation(signature: impl Into<String>, message: impl Into<String>, case: Value) -> CaseErr {
    CaseErr::Violation(Violation { signature: signature.into(), message: message.into(), case })
}

pub fn digest<D: Hash + ?Sized>(d: &D) -> u64 {
    // SipHash-1-3 with fixed keys: deterministic across runs
    #[allow(deprecated)]
    let mut h = std::hash::SipHasher::new_with_keys(0x7665_7269_665f_6970, 0x615f_6861_726e_6573);
    d.hash(&mut h);
    h.finish()
}

// ---------------------------------------------------------------------------------------------
// environment / known findings
// ---------------------------------------------------------------------------------------------

#[derive(Clone, Copy, PartialEq, Eq, Debug)]
pub enum Tier {
    Quick,
    Thorough,
}

pub struct Env {
    pub prop: String,
    pub tier: Tier,
    pub seed: u64,
    pub out: Option<String>,
    pub replay_dir: String,
    pub replay: Option<String>,
    pub engine: String,
    known: Vec<(String, String, String)>, // (property, signature, status)
    /// scale factor for case counts (VERIF_SCALE, percent; default 100) - used by sensitivity runs
    pub scale_pct: u64,
    pub only_sub: Option<String>,
}

impl Env {
    pub fn from_env() -> Self {
        let g = |k: &str| std::env::var(k).ok().filter(|s| !s.is_empty());
        let prop = g("VERIF_PROP").expect("VERIF_PROP not set");
        let tier = match g("VERIF_TIER").as_deref() {
            Some("thorough") => Tier::Thorough,
            _ => Tier::Quick,
        };
        let seed = g("VERIF_SEED").and_then(|s| s.parse::<i128>().ok()).map_or(0, |v| v as u64);
        let mut known = vec![];
        if let Some(p) = g("VERIF_KNOWN") {
            if let Ok(txt) = std::fs::read_to_string(&p) {
                let v: Value = serde_json::from_str(&txt).expect("known_findings.json must parse");
                for e in v["findings"].as_array().cloned().unwrap_or_default() {
                    known.push((
                        e["property"].as_str().unwrap_or("").to_string(),
                        e["signature"].as_str().unwrap_or("").to_string(),
                        e["status"].as_str().unwrap_or("").to_string(),
                    ));
                }
            }
        }
        Self {
            prop,
            tier,
            seed,
            out: g("VERIF_OUT"),
            replay_dir: g("VERIF_REPLAY_DIR").unwrap_or_else(|| "/verif/replays".into()),
            replay: g("VERIF_REPLAY"),
            engine: g("VERIF_ENGINE").unwrap_or_else(|| "e1".into()),
            known,
            scale_pct: g("VERIF_SCALE").and_then(|s| s.parse().ok()).unwrap_or(100),
            only_sub: g("VERIF_SUB"),
        }
    }
    pub fn is_known(&self, prop: &str, sig: &str) -> bool {
        self.known.iter().any(|(p, s, st)| p == prop && s == sig && st == "known")
    }
    pub fn thorough(&self) -> bool {
        self.tier == Tier::Thorough
    }
    /// pick a count per tier, scaled
    pub fn n(&self, quick: u64, thorough: u64) -> u64 {
        let base = if self.thorough() { thorough } else { quick };
        (base * self.scale_pct / 100).max(1)
    }
}

// ---------------------------------------------------------------------------------------------
// panic capture
// ---------------------------------------------------------------------------------------------

thread_local! {
    static LAST_PANIC: std::cell::RefCell<Option<(String, String)>> = const { std::cell::RefCell::new(None) };
}
static GLOBAL_PANICS: Mutex<Vec<(String, String)>> = Mutex::new(Vec::new());
static HOOK_INSTALLED: AtomicBool = AtomicBool::new(false);
static PANIC_COUNT: AtomicU64 = AtomicU64::new(0);

pub fn install_panic_hook() {
    if HOOK_INSTALLED.swap(true, Ordering::SeqCst) {
        return;
    }
    let verbose = std::env::var("VERIF_VERBOSE").is_ok();
    std::panic::set_hook(Box::new(move |info| {
        let loc = info.location().map_or_else(|| "?".to_string(), |l| format!("{}:{}", l.file(), l.line()));
        let msg = if let Some(s) = info.payload().downcast_ref::<&str>() {
            (*s).to_string()
        } else if let Some(s) = info.payload().downcast_ref::<String>() {
            s.clone()
        } else {
            "<non-string panic payload>".to_string()
        };
        PANIC_COUNT.fetch_add(1, Ordering::Relaxed);
        if verbose {
            eprintln!("[verif] panic at {loc}: {msg}");
        }
        LAST_PANIC.with(|p| *p.borrow_mut() = Some((loc.clone(), msg.clone())));
        if let Ok(mut g) = GLOBAL_PANICS.lock() {
            if g.len() < 10_000 {
                g.push((loc, msg));
            }
        }
    }));
}

pub fn take_last_panic() -> Option<(String, String)> {
    LAST_PANIC.with(|p| p.borrow_mut().take())
}

/// All panics observed process-wide since the last call (any thread).
pub fn drain_global_panics() -> Vec<(String, String)> {
    GLOBAL_PANICS.lock().map(|mut g| std::mem::take(&mut *g)).unwrap_or_default()
}

pub fn panic_message(p: &Box<dyn Any + Send>) -> String {
    if let Some(s) = p.downcast_ref::<&str>() {
        (*s).to_string()
    } else if let Some(s) = p.downcast_ref::<String>() {
        s.clone()
    } else {
        "<non-string panic payload>".to_string()
    }
}

/// Run `f`, turning a panic into `Err((location, message))`.
pub fn catch<R>(f: impl FnOnce() -> R) -> Result<R, (String, String)> {
    let _ = take_last_panic();
    match catch_unwind(AssertUnwindSafe(f)) {
        Ok(r) => Ok(r),
        Err(p) => {
            let msg = panic_message(&p);
            let (loc, m2) = take_last_panic().unwrap_or_else(|| ("?".into(), msg.clone()));
            Err((strip_repo_prefix(&loc), if m2.is_empty() { msg } else { m2 }))
        }
    }
}

pub fn strip_repo_prefix(loc: &str) -> String {
    // locations are `ipa-core/src/...:line` or absolute; keep the part from `ipa-core/`
    match loc.find("ipa-core/src/") {
        Some(i) => loc[i..].to_string(),
        None => loc.to_string(),
    }
}

/// Location without the line number (stable signature under unrelated edits)
pub fn loc_file(loc: &str) -> String {
    loc.rsplit_once(':').map_or_else(|| loc.to_string(), |(f, _)| f.to_string())
}

/// Does the source line at `loc` (file:line in /repo) begin a `debug_assert`?
pub fn is_debug_assert_location(loc: &str) -> bool {
    let Some((file, line)) = loc.rsplit_once(':') else { return false };
    let Ok(line) = line.parse::<usize>() else { return false };
    let root = std::env::var("VERIF_REPO").unwrap_or_else(|_| "/repo".into());
    let path = if file.starts_with('/') { file.to_string() } else { format!("{root}/{file}") };
    let Ok(txt) = std::fs::read_to_string(path) else { return false };
    txt.lines().nth(line.saturating_sub(1)).is_some_and(|l| l.trim_start().starts_with("debug_assert"))
}

// ---------------------------------------------------------------------------------------------
// sub-check description and the report
// ---------------------------------------------------------------------------------------------

pub type CaseFn = fn(&Env, &mut Src<'_>) -> CaseResult;

pub enum Kind {
    /// proptest-generated choice sequences of length `len`
    Random { len: usize, quick: u64, thorough: u64 },
    /// all of 0..count (count may depend on the tier)
    Exhaustive { quick: u64, thorough: u64 },
}

pub struct Sub {
    pub name: &'static str,
    pub kind: Kind,
    pub f: CaseFn,
    /// rule text: how cases are generated and what makes one non-trivial
    pub rule: &'static str,
    /// number of parallel generator streams (fixed, so that results do not depend on the machine)
    pub streams: usize,
    pub max_shrink_iters: u32,
    /// exhaustive subs: indices handed to a stream at a time (1 for expensive cases)
    pub block: u64,
}

impl Sub {
    pub const fn random(name: &'static str, len: usize, quick: u64, thorough: u64, f: CaseFn, rule: &'static str) -> Self {
        Self { name, kind: Kind::Random { len, quick, thorough }, f, rule, streams: 16, max_shrink_iters: 400, block: 64 }
    }
    pub const fn exhaustive(name: &'static str, quick: u64, thorough: u64, f: CaseFn, rule: &'static str) -> Self {
        Self { name, kind: Kind::Exhaustive { quick, thorough }, f, rule, streams: 16, max_shrink_iters: 0, block: 64 }
    }
    pub const fn streams(mut self, s: usize) -> Self {
        self.streams = s;
        self
    }
    pub const fn block(mut self, b: u64) -> Self {
        self.block = b;
        self
    }
    pub const fn shrink_iters(mut self, s: u32) -> Self {
        self.max_shrink_iters = s;
        self
    }
}

#[derive(Default)]
struct SubStats {
    evaluations: u64,
    rejected: u64,
    nontrivial: u64,
    digests: HashSet<u64>,
    classes: BTreeMap<String, u64>,
    samples: Vec<Value>,
    known_seen: BTreeMap<String, u64>,
    violations: Vec<(Violation, Vec<u32>)>,
    exhaustive: bool,
    wall_s: f64,
}

pub struct Report {
    pub env: Env,
    pub level: &'static str,
    subs: Vec<(String, String, SubStats)>,
    start: Instant,
    extra: BTreeMap<String, Value>,
    assumptions: Vec<String>,
}

/// Counter shared between case functions and the report for "known finding observed" events
/// (cases steered away from, or hitting, a region listed in known_findings.json).
static KNOWN_SEEN: Mutex<BTreeMap<String, u64>> = Mutex::new(BTreeMap::new());

pub fn note_known(sig: &str) {
    if let Ok(mut g) = KNOWN_SEEN.lock() {
        *g.entry(sig.to_string()).or_default() += 1;
    }
}

/// Convenience for case functions: classify a violation candidate against the known-findings
/// list. Returns `Ok(())` (after counting it) when it is a listed known finding, the violation
/// otherwise.
pub fn known_or_violation(env: &Env, signature: &str, message: String, case: Value) -> Result<(), CaseErr> {
    if env.is_known(&env.prop, signature) {
        note_known(signature);
        Ok(())
    } else {
        Err(violation(signature, message, case))
    }
}

fn stream_seed(seed: u64, prop: &str, sub: &str, stream: usize) -> [u8; 32] {
    let mut out = [0u8; 32];
    for (k, chunk) in out.chunks_mut(8).enumerate() {
        let h = digest(&(seed, prop, sub, stream as u64, k as u64, "ipa-verif-stream"));
        chunk.copy_from_slice(&h.to_le_bytes());
    }
    out
}

impl Report {
    pub fn new(env: Env, level: &'static str) -> Self {
        install_panic_hook();
        Self { env, level, subs: vec![], start: Instant::now(), extra: BTreeMap::new(), assumptions: vec![] }
    }

    pub fn assume(&mut self, s: impl Into<String>) {
        self.assumptions.push(s.into());
    }

    pub fn extra(&mut self, k: &str, v: Value) {
        self.extra.insert(k.to_string(), v);
    }

    fn run_case(env: &Env, f: CaseFn, choices: &[u32]) -> CaseResult {
        let mut src = Src::new(choices);
        // executors created by this case run in strict-waker mode for every other choice sequence
        detexec::set_thread_strict(choices.first().is_some_and(|c| c & 1 == 1));
        match catch(|| f(env, &mut src)) {
            Ok(Ok(mut ok)) => {
                if detexec::strict_was_used() {
                    ok.labels.push("detexec:strict-wakers".to_string());
                }
                Ok(ok)
            }
            Ok(r) => r,
            Err((loc, msg)) => {
                // a panic that escapes a case function is a failure of the case. Case functions
                // that *expect* panics (misuse oracles) catch them themselves.
                let sig = format!("panic:{}", loc_file(&loc));
                if env.is_known(&env.prop, &sig) {
                    note_known(&sig);
                    Ok(CaseOk::new(false, &0u8, Value::Null))
                } else {
                    Err(violation(sig, format!("panic at {loc}: {msg}"), json!({"choices": choices})))
                }
            }
        }
    }

    pub fn run(&mut self, sub: &Sub) {
        if let Some(only) = &self.env.only_sub {
            if !only.split(',').any(|s| s == sub.name) {
                return;
            }
        }
        let t0 = Instant::now();
        let env = &self.env;
        let stats = Mutex::new(SubStats::default());
        let max_samples = 6usize;
        let record = |choices: &[u32], r: &CaseResult, st: &mut SubStats, counting: bool| {
            if !counting {
                return;
            }
            match r {
                Ok(ok) => {
                    st.evaluations += 1;
                    if ok.nontrivial {
                        st.nontrivial += 1;
                        st.digests.insert(ok.digest);
                        if st.samples.len() < max_samples && !ok.sample.is_null() {
                            st.samples.push(ok.sample.clone());
                        }
                    }
                    for l in &ok.labels {
                        *st.classes.entry(l.clone()).or_default() += 1;
                    }
                }
                Err(CaseErr::Reject(_)) => st.rejected += 1,
                Err(CaseErr::Violation(_)) => {
                    st.evaluations += 1;
                    let _ = choices;
                }
            }
        };

        match sub.kind {
            Kind::Exhaustive { quick, thorough } => {
                let count = if env.thorough() { thorough } else { quick };
                let next = AtomicU64::new(0);
                let stop = AtomicBool::new(false);
                std::thread::scope(|s| {
                    for _ in 0..sub.streams {
                        s.spawn(|| {
                            let mut local = SubStats::default();
                            loop {
                                // blocks of indices to keep contention low
                                let base = next.fetch_add(sub.block, Ordering::Relaxed);
                                if base >= count || stop.load(Ordering::Relaxed) {
                                    break;
                                }
                                for i in base..(base + sub.block).min(count) {
                                    let choices = [i as u32, (i >> 32) as u32];
                                    let r = Self::run_case(env, sub.f, &choices);
                                    record(&choices, &r, &mut local, true);
                                    if let Err(CaseErr::Violation(v)) = r {
                                        if local.violations.len() < 3 {
                                            local.violations.push((v, choices.to_vec()));
                                        }
                                        stop.store(true, Ordering::Relaxed);
                                    }
                                }
                            }
                            merge(&mut stats.lock().unwrap(), local, max_samples);
                        });
                    }
                });
                let mut st = stats.lock().unwrap();
                st.exhaustive = !stop.load(Ordering::Relaxed);
            }
            Kind::Random { len, quick, thorough } => {
                let total = env.n(quick, thorough);
                let streams = sub.streams.min(total as usize).max(1);
                std::thread::scope(|s| {
                    for k in 0..streams {
                        let stats = &stats;
                        let record = &record;
                        s.spawn(move || {
                            let cases = total / streams as u64 + u64::from((k as u64) < total % streams as u64);
                            if cases == 0 {
                                return;
                            }
                            let cfg = Config {
                                cases: cases as u32,
                                failure_persistence: None,
                                max_shrink_iters: sub.max_shrink_iters,
                                max_global_rejects: 1_000_000,
                                ..Config::default()
                            };
                            let rng = TestRng::from_seed(RngAlgorithm::ChaCha, &stream_seed(env.seed, &env.prop, sub.name, k));
                            let mut runner = TestRunner::new_with_rng(cfg, rng);
                            let strat = proptest::collection::vec(proptest::num::u32::ANY, len);
                            let local = std::cell::RefCell::new(SubStats::default());
                            let failed = std::cell::Cell::new(false);
                            let first_fail: std::cell::RefCell<Option<String>> = std::cell::RefCell::new(None);
                            let res = runner.run(&strat, |choices| {
                                let r = Self::run_case(env, sub.f, &choices);
                                record(&choices, &r, &mut local.borrow_mut(), !failed.get());
                                match r {
                                    Ok(_) => Ok(()),
                                    Err(CaseErr::Reject(why)) => Err(TestCaseError::reject(why)),
                                    Err(CaseErr::Violation(v)) => {
                                        failed.set(true);
                                        if first_fail.borrow().is_none() {
                                            *first_fail.borrow_mut() = Some(format!("{} :: {}", v.signature, v.message.chars().take(300).collect::<String>()));
                                        }
                                        Err(TestCaseError::fail(v.signature))
                                    }
                                }
                            });
                            let mut local = local.into_inner();
                            match res {
                                Ok(()) => {}
                                Err(TestError::Fail(_, minimal)) => {
                                    // re-run the shrunk case to obtain the violation record
                                    match Self::run_case(env, sub.f, &minimal) {
                                        Err(CaseErr::Violation(v)) => local.violations.push((v, minimal)),
                                        // A failure that the same choices do not reproduce is not a
                                        // violation of anything: there is no replay to hand over. It is
                                        // counted, printed, and makes the run inconclusive (exit 2).
                                        _ => {
                                            UNSTABLE.fetch_add(1, std::sync::atomic::Ordering::SeqCst);
                                            println!(
                                                "[verif] sub={} a case failed during the search but not when re-run with the same choices (non-deterministic, no verdict): {}",
                                                sub.name,
                                                first_fail.borrow().clone().unwrap_or_default()
                                            );
                                            local.classes.insert("inconclusive:failure-not-reproduced".into(), 1);
                                        }
                                    }
                                }
                                Err(TestError::Abort(why)) => {
                                    local.classes.insert(format!("aborted:{why}"), 1);
                                }
                            }
                            merge(&mut stats.lock().unwrap(), local, max_samples);
                        });
                    }
                });
            }
        }
        let mut st = stats.into_inner().unwrap();
        st.wall_s = t0.elapsed().as_secs_f64();
        if let Ok(mut g) = KNOWN_SEEN.lock() {
            st.known_seen = std::mem::take(&mut *g);
        }
        // a strategy that rejects more than it accepts is a harness health problem, reported loudly
        self.subs.push((sub.name.to_string(), sub.rule.to_string(), st));
    }

    /// Replay one stored case. Returns process exit code semantics: true = violation reproduced.
    pub fn replay(&mut self, subs: &[Sub], path: &str) -> bool {
        let txt = std::fs::read_to_string(path).expect("replay file readable");
        let v: Value = serde_json::from_str(&txt).expect("replay file is JSON");
        let name = v["sub"].as_str().unwrap_or("");
        let choices: Vec<u32> = v["choices"].as_array().map(|a| a.iter().map(|x| x.as_u64().unwrap_or(0) as u32).collect()).unwrap_or_default();
        let Some(sub) = subs.iter().find(|s| s.name == name) else {
            println!("replay: unknown sub-check {name:?}");
            return false;
        };
        let r = Self::run_case(&self.env, sub.f, &choices);
        let mut st = SubStats::default();
        st.evaluations = 1;
        let reproduced = match r {
            Err(CaseErr::Violation(v)) => {
                st.violations.push((v, choices));
                true
            }
            Ok(ok) => {
                st.nontrivial = u64::from(ok.nontrivial);
                st.digests.insert(ok.digest);
                st.samples.push(ok.sample);
                false
            }
            Err(CaseErr::Reject(_)) => false,
        };
        self.subs.push((sub.name.to_string(), sub.rule.to_string(), st));
        reproduced
    }

    /// Write the evidence file, print VIOLATION / KNOWN-FINDING lines. Returns number of violations.
    pub fn finish(self) -> usize {
        let env = &self.env;
        let mut evaluations = 0u64;
        let mut distinct = 0u64;
        let mut samples: Vec<Value> = vec![];
        let mut rules: Vec<String> = vec![];
        let mut sub_reports = serde_json::Map::new();
        let mut nviol = 0usize;
        let mut known_total: BTreeMap<String, u64> = BTreeMap::new();
        let mut all_exhaustive = true;
        let mut any = false;
        let _ = std::fs::create_dir_all(&env.replay_dir);
        let mut rejected_total = 0u64;
        for (name, rule, st) in &self.subs {
            any = true;
            evaluations += st.evaluations;
            distinct += st.digests.len() as u64;
            rejected_total += st.rejected;
            all_exhaustive &= st.exhaustive;
            for s in st.samples.iter().take(3) {
                samples.push(json!({"sub": name, "case": s}));
            }
            rules.push(format!("[{name}] {rule}"));
            for (k, v) in &st.known_seen {
                *known_total.entry(k.clone()).or_default() += v;
            }
            let mut viol_json = vec![];
            // one report per distinct signature (the 16 generator streams usually find the same
            // defect); keep the shortest / smallest choice sequence
            let mut by_sig: BTreeMap<&str, &(Violation, Vec<u32>)> = BTreeMap::new();
            for e in &st.violations {
                let better = match by_sig.get(e.0.signature.as_str()) {
                    None => true,
                    Some(old) => (e.1.iter().filter(|c| **c != 0).count(), &e.1) < (old.1.iter().filter(|c| **c != 0).count(), &old.1),
                };
                if better {
                    by_sig.insert(e.0.signature.as_str(), e);
                }
            }
            for (v, choices) in by_sig.values().map(|e| (&e.0, &e.1)) {
                nviol += 1;
                let d = digest(&(name, &v.signature, choices));
                let path = format!("{}/{}-{}-{:016x}.json", env.replay_dir, env.prop, name, d);
                let body = json!({
                    "property": env.prop, "sub": name, "engine": env.engine, "signature": v.signature,
                    "message": v.message, "case": v.case, "choices": choices,
                    "seed": env.seed, "tier": if env.thorough() {"thorough"} else {"quick"},
                });
                let _ = std::fs::write(&path, serde_json::to_string_pretty(&body).unwrap());
                println!("VIOLATION property={} replay={}", env.prop, path);
                println!("  sub={} signature={} :: {}", name, v.signature, v.message.lines().next().unwrap_or(""));
                viol_json.push(json!({"signature": v.signature, "message": v.message, "replay": path}));
            }
            sub_reports.insert(
                name.clone(),
                json!({
                    "evaluations": st.evaluations, "nontrivial": st.nontrivial, "distinct_nontrivial": st.digests.len(),
                    "rejected": st.rejected, "classes": st.classes, "exhaustive": st.exhaustive,
                    "wall_s": (st.wall_s * 1000.0).round() / 1000.0, "violations": viol_json,
                    "known_findings_seen": st.known_seen,
                }),
            );
        }
        for (sig, n) in &known_total {
            println!("KNOWN-FINDING: property={} {} (observed {} time(s) in this run)", env.prop, sig, n);
        }
        let wall = self.start.elapsed().as_secs_f64();
        let mut coverage = serde_json::Map::new();
        coverage.insert("evaluations".into(), json!(evaluations));
        coverage.insert("distinct_nontrivial".into(), json!(distinct));
        coverage.insert("rule".into(), json!(rules.join(" | ")));
        coverage.insert("samples".into(), json!(samples));
        coverage.insert("rejected".into(), json!(rejected_total));
        coverage.insert("exhaustive".into(), json!(any && all_exhaustive));
        coverage.insert("subchecks".into(), Value::Object(sub_reports));
        coverage.insert("known_findings_seen".into(), json!(known_total));
        coverage.insert("engine".into(), json!(env.engine));
        for (k, v) in &self.extra {
            coverage.insert(k.clone(), v.clone());
        }
        let ev = json!({
            "property_id": env.prop,
            "tier": if env.thorough() {"thorough"} else {"quick"},
            "seed": env.seed,
            "level": self.level,
            "coverage": coverage,
            "assumptions": self.assumptions,
            "wall_s": (wall * 1000.0).round() / 1000.0,
            "violations": nviol,
        });
        if let Some(out) = &env.out {
            if let Some(dir) = std::path::Path::new(out).parent() {
                let _ = std::fs::create_dir_all(dir);
            }
            std::fs::write(out, serde_json::to_string_pretty(&ev).unwrap()).expect("evidence file writable");
        }
        println!(
            "[verif] property={} engine={} tier={:?} seed={} evaluations={} distinct_nontrivial={} rejected={} violations={} wall={:.1}s",
            env.prop, env.engine, env.tier, env.seed, evaluations, distinct, rejected_total, nviol, wall
        );
        nviol
    }
}

/// failures seen during a search that the same choices did not reproduce (see `Report::run`)
pub static UNSTABLE: std::sync::atomic::AtomicU32 = std::sync::atomic::AtomicU32::new(0);

fn merge(into: &mut SubStats, from: SubStats, max_samples: usize) {
    into.evaluations += from.evaluations;
    into.rejected += from.rejected;
    into.nontrivial += from.nontrivial;
    into.digests.extend(from.digests);
    for (k, v) in from.classes {
        *into.classes.entry(k).or_default() += v;
    }
    for s in from.samples {
        if into.samples.len() < max_samples {
            into.samples.push(s);
        }
    }
    into.violations.extend(from.violations);
}

/// Body of every libtest entry point of the harness: run (or replay) the sub-checks, write the
/// evidence, and leave the process with 0 (held) / 1 (violation). libtest's own failure status 101
/// is reserved for harness errors and mapped to "inconclusive" by ./check.
pub fn run_main(env: Env, level: &'static str, subs: Vec<Sub>) -> ! {
    println!();
    let replay = env.replay.clone();
    let mut report = Report::new(env, level);
    if let Some(path) = replay {
        let reproduced = report.replay(&subs, &path);
        let n = report.finish();
        println!("[verif] replay {}: {}", path, if reproduced { "violation reproduced" } else { "no violation" });
        std::process::exit(if n > 0 { 1 } else { 0 });
    }
    for s in &subs {
        report.run(s);
    }
    let n = report.finish();
    let unstable = UNSTABLE.load(std::sync::atomic::Ordering::SeqCst);
    if n == 0 && unstable > 0 {
        println!("[verif] {unstable} failure(s) seen during the search were not reproduced on re-run - inconclusive");
        std::process::exit(2);
    }
    std::process::exit(if n > 0 { 1 } else { 0 });
}

// ---------------------------------------------------------------------------------------------
// small helpers used by several properties
// ---------------------------------------------------------------------------------------------

/// Run a future to completion on a fresh current-thread tokio runtime.
pub fn block_on<F: std::future::Future>(f: F) -> F::Output {
    tokio::runtime::Builder::new_current_thread().enable_time().build().unwrap().block_on(f)
}

/// Run a future on a fresh multi-thread runtime with `workers` workers.
pub fn block_on_mt<F: std::future::Future>(workers: usize, f: F) -> F::Output {
    tokio::runtime::Builder::new_multi_thread().worker_threads(workers.max(1)).enable_time().build().unwrap().block_on(f)
}

#[allow(unused)]
pub fn unused_strategy_marker() {
    // keeps the `Strategy`/`ValueTree` imports alive for sub-modules that use them via `super::common::*`
    fn _f<S: Strategy>(_s: S)
    where
        S::Tree: ValueTree,
    {
    }
}

// ---------------------------------------------------------------------------------------------
// deterministic single-threaded executor whose schedule is owned by the harness (DESIGN 2.4)
// ---------------------------------------------------------------------------------------------

pub mod detexec {
    use std::{
        future::Future,
        pin::Pin,
        sync::{
            Arc,
            atomic::{AtomicBool, AtomicUsize, Ordering},
        },
        task::{Context, Poll, Wake, Waker},
    };

    struct Flag {
        woken: AtomicBool,
        wakes: AtomicUsize,
        /// generation of the most recent poll (strict mode)
        generation: AtomicUsize,
    }

    /// The waker handed to one poll. In strict mode only the waker of the *most recent* poll of a
    /// task schedules it (the `Future` contract: "only the Waker from the Context passed to the
    /// most recent call should be scheduled to receive a wakeup"); a wake-up through a waker kept
    /// from an earlier poll is ignored, exactly as if that earlier context had gone away (the
    /// request moved to another task, a `select!` branch was dropped, ...).
    struct GenWaker {
        flag: Arc<Flag>,
        generation: usize,
        strict: bool,
    }
    impl Wake for GenWaker {
        fn wake(self: Arc<Self>) {
            self.wake_by_ref();
        }
        fn wake_by_ref(self: &Arc<Self>) {
            if !self.strict || self.generation == self.flag.generation.load(Ordering::SeqCst) {
                self.flag.woken.store(true, Ordering::SeqCst);
            }
            self.flag.wakes.fetch_add(1, Ordering::SeqCst);
        }
    }

    thread_local! {
        static STRICT_DEFAULT: std::cell::Cell<bool> = const { std::cell::Cell::new(false) };
        static STRICT_USED: std::cell::Cell<bool> = const { std::cell::Cell::new(false) };
    }
    /// Default for executors created on this thread (set per case by the case runner).
    pub fn set_thread_strict(v: bool) {
        STRICT_DEFAULT.with(|c| c.set(v));
        STRICT_USED.with(|c| c.set(false));
    }
    /// Whether an executor in strict mode was created on this thread since `set_thread_strict`.
    pub fn strict_was_used() -> bool {
        STRICT_USED.with(std::cell::Cell::get)
    }

    /// A set of tasks polled only when the harness says so. A task is *runnable* when it has
    /// never been polled or its waker has been invoked since its last poll. Polling a task that is
    /// not runnable is allowed (spurious poll) but `step_runnable` never does it, which makes
    /// "no task runnable and not all complete" an exact lost-wake-up / deadlock verdict: there are
    /// no timers or other threads that could wake anything later.
    pub struct DetExec<'a> {
        tasks: Vec<Option<Pin<Box<dyn Future<Output = ()> + 'a>>>>,
        flags: Vec<Arc<Flag>>,
        pub polls: usize,
        strict: bool,
    }

    impl<'a> DetExec<'a> {
        pub fn new() -> Self {
            let strict = STRICT_DEFAULT.with(std::cell::Cell::get);
            if strict {
                STRICT_USED.with(|c| c.set(true));
            }
            Self { tasks: vec![], flags: vec![], polls: 0, strict }
        }
        pub fn spawn(&mut self, f: impl Future<Output = ()> + 'a) -> usize {
            self.tasks.push(Some(Box::pin(f)));
            self.flags.push(Arc::new(Flag { woken: AtomicBool::new(true), wakes: AtomicUsize::new(0), generation: AtomicUsize::new(0) }));
            self.tasks.len() - 1
        }
        pub fn len(&self) -> usize {
            self.tasks.len()
        }
        pub fn is_done(&self, id: usize) -> bool {
            self.tasks[id].is_none()
        }
        pub fn all_done(&self) -> bool {
            self.tasks.iter().all(Option::is_none)
        }
        pub fn is_runnable(&self, id: usize) -> bool {
            self.tasks[id].is_some() && self.flags[id].woken.load(Ordering::SeqCst)
        }
        pub fn runnable(&self) -> Vec<usize> {
            (0..self.tasks.len()).filter(|&i| self.is_runnable(i)).collect()
        }
        pub fn wake_count(&self, id: usize) -> usize {
            self.flags[id].wakes.load(Ordering::SeqCst)
        }
        /// Poll task `id` once (whether or not it is runnable). Returns true if it completed.
        pub fn poll(&mut self, id: usize) -> bool {
            let Some(fut) = self.tasks[id].as_mut() else { return true };
            self.flags[id].woken.store(false, Ordering::SeqCst);
            let generation = self.flags[id].generation.fetch_add(1, Ordering::SeqCst) + 1;
            let waker = Waker::from(Arc::new(GenWaker { flag: Arc::clone(&self.flags[id]), generation, strict: self.strict }));
            let mut cx = Context::from_waker(&waker);
            self.polls += 1;
            match fut.as_mut().poll(&mut cx) {
                Poll::Ready(()) => {
                    self.tasks[id] = None;
                    true
                }
                Poll::Pending => false,
            }
        }
        /// Drop a task without completing it (cancellation).
        pub fn cancel(&mut self, id: usize) {
            self.tasks[id] = None;
        }
        /// Poll the `k`-th runnable task (k taken modulo the number of runnable tasks by a
        /// monotone map). Returns None when nothing is runnable.
        pub fn step_runnable(&mut self, pick: impl FnOnce(usize) -> usize) -> Option<usize> {
            let r = self.runnable();
            if r.is_empty() {
                return None;
            }
            let id = r[pick(r.len()).min(r.len() - 1)];
            self.poll(id);
            Some(id)
        }
        /// Run until all tasks are done or nothing is runnable; `pick(n)` chooses among n runnable
        /// tasks. Returns Ok(polls) or Err(ids of the stuck tasks).
        pub fn run(&mut self, mut pick: impl FnMut(usize) -> usize, max_polls: usize) -> Result<usize, Vec<usize>> {
            let start = self.polls;
            while !self.all_done() {
                if self.polls - start > max_polls {
                    return Err((0..self.len()).filter(|&i| !self.is_done(i)).collect());
                }
                if self.step_runnable(&mut pick).is_none() {
                    return Err((0..self.len()).filter(|&i| !self.is_done(i)).collect());
                }
            }
            Ok(self.polls - start)
        }
    }
}
