// Root of the /verif harness: included as `crate::ipa_verif` by hook H1 (cfg(all(test, ipa_verif))).
// One libtest entry point (`ipa_verif::run`) dispatches on VERIF_PROP; see /verif/check.

#[allow(dead_code, unused_imports, unused_variables, clippy::all, clippy::pedantic)]
pub(crate) mod common {
    include!(concat!(env!("IPA_VERIF_DIR"), "/common.rs"));
}

macro_rules! prop_mod {
    ($name:ident, $file:literal) => {
        #[allow(dead_code, unused_imports, unused_variables, clippy::all, clippy::pedantic)]
        pub(crate) mod $name {
            include!(concat!(env!("IPA_VERIF_DIR"), "/", $file));
        }
    };
}

include!(concat!(env!("IPA_VERIF_DIR"), "/modules.rs"));

#[test]
fn run() {
    use common::{Env, Report};
    println!();
    let env = Env::from_env();
    let (level, subs) = dispatch(&env);
    let replay = env.replay.clone();
    let mut report = Report::new(env, level);
    if let Some(path) = replay {
        let reproduced = report.replay(&subs, &path);
        let n = report.finish();
        println!("[verif] replay {}: {}", path, if reproduced { "violation reproduced" } else { "no violation" });
        std::process::exit(if n > 0 { 1 } else { 0 });
    }
    for s in &subs {
        report.run(s);
    }
    let n = report.finish();
    // exit directly: 0 = property held on everything explored, 1 = violation (libtest's own
    // failure status 101 is reserved for harness errors and mapped to "inconclusive" by ./check)
    std::process::exit(if n > 0 { 1 } else { 0 });
}
