// Root of the /verif harness: included as `crate::ipa_verif` by hook H1 (cfg(all(test, ipa_verif))).
// One libtest entry point (`ipa_verif::run`) dispatches on VERIF_PROP; see /verif/check.

#[allow(dead_code, unused_imports, unused_variables, clippy::all, clippy::pedantic)]
pub(crate) mod common {
    include!(concat!(env!("IPA_VERIF_DIR"), "/common.rs"));
}

macro_rules! prop_mod {
    ($name:ident, $file:literal) => {
        #[allow(dead_code, unused_imports, unused_variables, clippy::all, clippy::pedantic)]
        pub(crate) mod $name {
            include!(concat!(env!("IPA_VERIF_DIR"), "/", $file));
        }
    };
}

include!(concat!(env!("IPA_VERIF_DIR"), "/modules.rs"));

#[test]
fn run() {
    let env = common::Env::from_env();
    let (level, subs) = dispatch(&env);
    common::run_main(env, level, subs);
}
