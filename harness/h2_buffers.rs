// hook module body (h2_buffers): re-exports / tests that need access to items private to this module's parent.
