// hook module body (h2_buffers): lives at `crate::helpers::buffers::ipa_verif_h2`.
//
// C14 - send and receive buffers behave as an ordered byte queue under all interleavings.
//
// (a) `CircularBuf` against a `VecDeque<u8>` reference queue: every operation sequence over
//     {write, take, close} up to a depth bound for a family of (capacity, write, read) triples
//     (exhaustive) and long generated sequences for larger triples (random), all observers
//     compared after every step.
// (b) `OrderingSender` under the deterministic executor: writer tasks + closer + stream reader,
//     every poll compared with a poll-level reference model (Ready/Pending and the bytes), the
//     wake-up invariant "a task that can make progress is runnable" after every poll and exact
//     deadlock detection; all schedules (DFS) for small task sets, generated schedules with
//     spurious polls beyond.
// (c) `UnorderedReceiver`: all chunkings of short streams x all request orders (exhaustive) and
//     generated arrival/request schedules with a feeder task (random), same style of oracle.

use std::{
    cell::RefCell,
    collections::VecDeque,
    fmt::{Debug, Display, Formatter},
    future::Future,
    num::NonZeroUsize,
    pin::Pin,
    rc::Rc,
    task::{Context, Poll, Waker},
};

use generic_array::{ArrayLength, GenericArray};
use serde_json::{Value, json};
use typenum::{U1, U2, U3, U4, U5, U6, U7, U8};

use super::circular::CircularBuf;
use crate::{ff::Serializable, ipa_verif::common::*};

pub const LEVEL: &str = "exploration";

// ------------------------------------------------------------------------------------------
// message type of a generic byte width; deserialisation fails when the first byte is POISON
// ------------------------------------------------------------------------------------------

pub const POISON: u8 = 0xEE;

#[derive(Debug)]
pub struct BadMsg;
impl Display for BadMsg {
    fn fmt(&self, f: &mut Formatter<'_>) -> std::fmt::Result {
        write!(f, "poisoned message")
    }
}
impl std::error::Error for BadMsg {}

pub struct Bytes<N: ArrayLength>(pub GenericArray<u8, N>);

impl<N: ArrayLength> Debug for Bytes<N> {
    fn fmt(&self, f: &mut Formatter<'_>) -> std::fmt::Result {
        write!(f, "Bytes{:?}", self.0.as_slice())
    }
}

impl<N: ArrayLength> Bytes<N> {
    pub fn from_slice(b: &[u8]) -> Self {
        Self(GenericArray::<u8, N>::from_slice(b).clone())
    }
}

impl<N: ArrayLength> Serializable for Bytes<N> {
    type Size = N;
    type DeserializationError = BadMsg;

    fn serialize(&self, buf: &mut GenericArray<u8, Self::Size>) {
        buf.copy_from_slice(&self.0);
    }

    fn deserialize(buf: &GenericArray<u8, Self::Size>) -> Result<Self, Self::DeserializationError> {
        if buf[0] == POISON { Err(BadMsg) } else { Ok(Self(buf.clone())) }
    }
}

macro_rules! by_size {
    ($s:expr, $f:ident ( $($a:expr),* )) => {
        match $s {
            1 => $f::<U1>($($a),*),
            2 => $f::<U2>($($a),*),
            3 => $f::<U3>($($a),*),
            4 => $f::<U4>($($a),*),
            5 => $f::<U5>($($a),*),
            6 => $f::<U6>($($a),*),
            7 => $f::<U7>($($a),*),
            8 => $f::<U8>($($a),*),
            other => unreachable!("message size {other}"),
        }
    };
}

// ==========================================================================================
// (a) CircularBuf vs VecDeque<u8>
// ==========================================================================================

#[derive(Default)]
struct CircStats {
    writes: usize,
    takes_data: usize,
    takes_empty: usize,
    skipped: usize,
    full_reached: bool,
    wrapped: bool,
    closed: bool,
    closed_remainder: bool,
    eff: Vec<u8>,
}

struct CircRun {
    buf: CircularBuf,
    model: VecDeque<u8>,
    closed: bool,
    cap: usize,
    w: usize,
    r: usize,
    counter: u32,
    salt: u8,
    total_written: usize,
    st: CircStats,
}

impl CircRun {
    fn new(cap: usize, w: usize, r: usize, salt: u8) -> Self {
        Self {
            buf: CircularBuf::new(cap, w, r),
            model: VecDeque::new(),
            closed: false,
            cap,
            w,
            r,
            counter: 0,
            salt,
            total_written: 0,
            st: CircStats::default(),
        }
    }

    fn describe(&self) -> Value {
        json!({"capacity": self.cap, "write_size": self.w, "read_size": self.r, "ops": ops_str(&self.st.eff)})
    }

    /// compare every observer with the model
    fn check(&self, env: &Env, after: &str) -> Result<(), CaseErr> {
        let len = self.model.len();
        let fail = |what: &str, msg: String| known_or_violation(env, &format!("circ:{what}"), format!("after {after}: {msg}"), self.describe());
        if self.buf.len() != len {
            fail("len", format!("len() = {} but the reference queue holds {len} bytes", self.buf.len()))?;
        }
        if self.buf.capacity() != self.cap {
            fail("capacity", format!("capacity() = {} expected {}", self.buf.capacity(), self.cap))?;
        }
        if self.buf.is_closed() != self.closed {
            fail("is_closed", format!("is_closed() = {} expected {}", self.buf.is_closed(), self.closed))?;
        }
        let can_write = !self.closed && self.cap - len >= self.w;
        if self.buf.can_write() != can_write {
            fail("can_write", format!("can_write() = {} with {len}/{} bytes, write size {}, closed {}", self.buf.can_write(), self.cap, self.w, self.closed))?;
        }
        let can_read = (self.closed && len > 0) || len >= self.r;
        if self.buf.can_read() != can_read {
            fail("can_read", format!("can_read() = {} with {len} bytes, read size {}, closed {}", self.buf.can_read(), self.r, self.closed))?;
        }
        Ok(())
    }

    /// op: 0 write, 1 take, 2 close. Operations whose documented precondition does not hold in
    /// the reference state are skipped (returns false).
    fn apply(&mut self, env: &Env, op: u8) -> Result<bool, CaseErr> {
        match op {
            0 => {
                if self.closed || self.model.len() + self.w > self.cap {
                    self.st.skipped += 1;
                    return Ok(false);
                }
                let mut data = Vec::with_capacity(self.w);
                for k in 0..self.w {
                    // every byte of the stream is different from its neighbours at distance < 251
                    let pos = self.total_written + k;
                    data.push(((pos % 251) as u8).wrapping_mul(37).wrapping_add(self.salt));
                }
                self.counter += 1;
                self.buf.next().write(data.as_slice());
                self.model.extend(data.iter());
                self.total_written += self.w;
                self.st.writes += 1;
                if self.model.len() + self.w > self.cap {
                    self.st.full_reached = true;
                }
                if self.total_written > self.cap {
                    self.st.wrapped = true;
                }
                self.st.eff.push(0);
                self.check(env, "write")?;
            }
            1 => {
                let len = self.model.len();
                let readable = (self.closed && len > 0) || len >= self.r;
                let got = self.buf.take();
                self.st.eff.push(1);
                if !readable {
                    if !got.is_empty() {
                        known_or_violation(env, "circ:take-unreadable", format!("take() returned {} bytes while only {len} bytes (< read size {}) are buffered and the buffer is open", got.len(), self.r), self.describe())?;
                    }
                    self.st.takes_empty += 1;
                } else {
                    let want_len = self.r.min(len);
                    if !self.closed && got.len() != self.r {
                        known_or_violation(env, "circ:take-len-open", format!("open buffer: take() returned {} bytes, read size is {}", got.len(), self.r), self.describe())?;
                    }
                    if self.closed && (got.is_empty() || got.len() > self.r || got.len() % self.w != 0 || got.len() > len) {
                        known_or_violation(env, "circ:take-len-closed", format!("closed buffer: take() returned {} bytes ({} buffered, read size {}, write size {})", got.len(), len, self.r, self.w), self.describe())?;
                    }
                    let expect: Vec<u8> = self.model.iter().take(got.len()).copied().collect();
                    if got != expect {
                        known_or_violation(env, "circ:take-bytes", format!("take() returned {got:?}, the reference queue has {expect:?} at its head"), self.describe())?;
                    }
                    if self.closed && got.len() < self.r {
                        self.st.closed_remainder = true;
                    }
                    let _ = want_len;
                    self.model.drain(..got.len().min(len));
                    self.st.takes_data += 1;
                }
                self.check(env, "take")?;
            }
            _ => {
                if self.closed {
                    self.st.skipped += 1;
                    return Ok(false);
                }
                self.buf.close();
                self.closed = true;
                self.st.closed = true;
                self.st.eff.push(2);
                self.check(env, "close")?;
            }
        }
        Ok(true)
    }

    /// close (if open) and drain: everything written comes out, in order
    fn finish(&mut self, env: &Env) -> Result<(), CaseErr> {
        if !self.closed {
            self.apply(env, 2)?;
        }
        let mut guard = 0;
        while !self.model.is_empty() {
            self.apply(env, 1)?;
            guard += 1;
            if guard > self.cap + 2 {
                known_or_violation(env, "circ:drain", "closed buffer does not drain".to_string(), self.describe())?;
                break;
            }
        }
        if !self.buf.take().is_empty() {
            known_or_violation(env, "circ:drain-extra", "take() on a drained closed buffer returned data".to_string(), self.describe())?;
        }
        Ok(())
    }

    fn outcome(self, extra_digest: u64) -> CaseResult {
        let st = &self.st;
        let nontrivial = st.wrapped && st.takes_data > 0;
        let mut ok = CaseOk::new(nontrivial, &(self.cap, self.w, self.r, &st.eff, extra_digest), self.describe());
        let mut l = |c: bool, s: &str| {
            if c {
                ok.labels.push(s.to_string());
            }
        };
        l(st.wrapped, "wrapped");
        l(st.full_reached, "full_reached");
        l(st.takes_empty > 0, "take_when_unreadable");
        l(st.closed_remainder, "remainder_after_close");
        l(self.cap % self.r != 0, "capacity_not_multiple_of_read");
        l(self.cap == self.r, "capacity_eq_read");
        l(self.r == self.w, "read_eq_write");
        l(self.w > 1, "write_size>1");
        Ok(ok)
    }
}

fn ops_str(eff: &[u8]) -> String {
    eff.iter().map(|o| ['W', 'T', 'C'][*o as usize]).collect()
}

/// triples of the exhaustive sub-check: write size 1..=3, read 1..=3 units, capacity read..=4 units
fn circ_small_triples() -> Vec<(usize, usize, usize)> {
    let mut v = vec![];
    for w in 1..=3usize {
        for r in 1..=3usize {
            for c in r..=4usize {
                v.push((c * w, w, r * w));
            }
        }
    }
    v
}

const CIRC_DEPTH_QUICK: u32 = 11;
const CIRC_DEPTH_THOROUGH: u32 = 14;

fn circ_exh_total(depth: u32) -> u64 {
    circ_small_triples().len() as u64 * 3u64.pow(depth)
}

fn circ_exhaustive(env: &Env, src: &mut Src<'_>) -> CaseResult {
    let i = u64::from(src.raw()) | (u64::from(src.raw()) << 32);
    let depth = if env.thorough() { CIRC_DEPTH_THOROUGH } else { CIRC_DEPTH_QUICK };
    let seqs = 3u64.pow(depth);
    let triples = circ_small_triples();
    let (cap, w, r) = triples[(i / seqs) as usize % triples.len()];
    let mut code = i % seqs;
    let mut run = CircRun::new(cap, w, r, (i % 251) as u8);
    run.check(env, "new")?;
    for _ in 0..depth {
        let op = (code % 3) as u8;
        code /= 3;
        run.apply(env, op)?;
    }
    run.finish(env)?;
    // distinct counting is over the *effective* sequences (skipped operations do not count)
    run.outcome(0)
}

fn circ_random(env: &Env, src: &mut Src<'_>) -> CaseResult {
    let w = src.pick(&[1usize, 1, 2, 3, 4, 5, 7, 8, 16, 32]);
    let r_units = src.urange(1, 6);
    let c_units = r_units + src.pick(&[0usize, 0, 1, 1, 2, 3, 5, 6, 11]);
    let (cap, r) = (c_units * w, r_units * w);
    let salt = src.below(256) as u8;
    let mut run = CircRun::new(cap, w, r, salt);
    run.check(env, "new")?;
    let n_ops = src.urange(1, 120);
    let close_at = if src.chance(1, 2) { Some(src.idx(n_ops)) } else { None };
    let mut k = 0;
    while k < n_ops {
        if close_at == Some(k) {
            run.apply(env, 2)?;
        }
        // bursts make "full" and "empty" states frequent
        let mode = src.below(8);
        match mode {
            0 => {
                // write until full
                while run.apply(env, 0)? {
                    k += 1;
                }
            }
            1 => {
                // drain
                for _ in 0..c_units {
                    run.apply(env, 1)?;
                    k += 1;
                }
            }
            2..=4 => {
                run.apply(env, 0)?;
            }
            _ => {
                run.apply(env, 1)?;
            }
        }
        k += 1;
    }
    run.finish(env)?;
    run.outcome(0)
}

// ==========================================================================================
// (b) OrderingSender under the deterministic executor
// ==========================================================================================

#[cfg(not(feature = "shuttle"))]
mod sender_det {
    use super::*;
    use crate::helpers::buffers::OrderingSender;

    #[derive(Clone, Debug)]
    pub struct SCfg {
        pub w: usize,
        pub cap_units: usize,
        pub read_units: usize,
        pub n_msgs: usize,
        /// indices sent by each writer task (ascending inside a task)
        pub tasks: Vec<Vec<usize>>,
        pub salt: u8,
    }

    impl SCfg {
        pub fn cap(&self) -> usize {
            self.cap_units * self.w
        }
        pub fn read(&self) -> usize {
            self.read_units * self.w
        }
        pub fn msg(&self, i: usize) -> Vec<u8> {
            (0..self.w).map(|k| (i as u8).wrapping_mul(31).wrapping_add((k as u8).wrapping_mul(7)).wrapping_add(self.salt)).collect()
        }
        pub fn json(&self) -> Value {
            json!({"write_size": self.w, "capacity": self.cap(), "read_size": self.read(), "messages": self.n_msgs, "writer_tasks": self.tasks})
        }
    }

    /// poll-level reference model + observations, shared between the tasks and the scheduler
    #[derive(Default)]
    pub struct Model {
        /// number of completed send/close operations = index whose turn it is
        pub next: usize,
        /// bytes in the buffer
        pub occ: usize,
        pub closed: bool,
        /// bytes handed to the reader
        pub taken: usize,
        /// operation each writer/closer task currently waits on (None = finished)
        pub cur: Vec<Option<usize>>,
        pub reader_done: bool,
        pub err: Option<(String, String)>,
        // observations
        pub blocked_full: usize,
        pub waiting_turn: usize,
        pub chunks: Vec<(usize, bool)>,
        pub reader_pending: usize,
    }

    type Shared = Rc<RefCell<Model>>;

    fn set_err(m: &mut Model, sig: &str, msg: String) {
        if m.err.is_none() {
            m.err = Some((sig.to_string(), msg));
        }
    }

    type MakeOp<'a> = fn(&'a OrderingSender, &'a SCfg, usize) -> Pin<Box<dyn Future<Output = ()> + 'a>>;

    fn make_op<'a, N: ArrayLength>(sender: &'a OrderingSender, cfg: &'a SCfg, i: usize) -> Pin<Box<dyn Future<Output = ()> + 'a>> {
        if i == cfg.n_msgs {
            Box::pin(sender.close(i))
        } else {
            Box::pin(sender.send::<Bytes<N>, Bytes<N>>(i, Bytes::<N>::from_slice(&cfg.msg(i))))
        }
    }

    /// a writer task: sends its indices one after the other, yielding after each completed send
    struct Writer<'a> {
        id: usize,
        cfg: &'a SCfg,
        idxs: Vec<usize>,
        pos: usize,
        sender: &'a OrderingSender,
        make: MakeOp<'a>,
        fut: Option<Pin<Box<dyn Future<Output = ()> + 'a>>>,
        sh: Shared,
    }

    impl Future for Writer<'_> {
        type Output = ();
        fn poll(self: Pin<&mut Self>, cx: &mut Context<'_>) -> Poll<()> {
            let this = Pin::get_mut(self);
            if this.pos == this.idxs.len() {
                return Poll::Ready(());
            }
            let i = this.idxs[this.pos];
            if this.fut.is_none() {
                this.fut = Some((this.make)(this.sender, this.cfg, i));
            }
            let is_close = i == this.cfg.n_msgs;
            let (my_turn, space) = {
                let m = this.sh.borrow();
                (m.next == i, is_close || m.occ + this.cfg.w <= this.cfg.cap())
            };
            let expect_ready = my_turn && space;
            let r = this.fut.as_mut().unwrap().as_mut().poll(cx);
            let mut m = this.sh.borrow_mut();
            match (r, expect_ready) {
                (Poll::Ready(()), true) => {
                    this.fut = None;
                    this.pos += 1;
                    m.next += 1;
                    if is_close {
                        m.closed = true;
                    } else {
                        m.occ += this.cfg.w;
                    }
                    let done = this.pos == this.idxs.len();
                    m.cur[this.id] = if done { None } else { Some(this.idxs[this.pos]) };
                    if done {
                        Poll::Ready(())
                    } else {
                        cx.waker().wake_by_ref();
                        Poll::Pending
                    }
                }
                (Poll::Pending, false) => {
                    if my_turn {
                        m.blocked_full += 1;
                    } else {
                        m.waiting_turn += 1;
                    }
                    Poll::Pending
                }
                (Poll::Ready(()), false) => {
                    let (sig, msg) = if my_turn {
                        ("sender:write-into-full", format!("send({i}) completed although the buffer holds {} of {} bytes (write size {})", m.occ, this.cfg.cap(), this.cfg.w))
                    } else {
                        ("sender:out-of-turn", format!("{}({i}) completed although only {} earlier operations have completed", if is_close { "close" } else { "send" }, m.next))
                    };
                    set_err(&mut m, sig, msg);
                    Poll::Ready(())
                }
                (Poll::Pending, true) => {
                    let msg = format!(
                        "{}({i}) returned Pending although all earlier operations have completed and the buffer holds {} of {} bytes",
                        if is_close { "close" } else { "send" },
                        m.occ,
                        this.cfg.cap()
                    );
                    set_err(&mut m, "sender:spurious-block", msg);
                    Poll::Ready(())
                }
            }
        }
    }

    /// the stream reader: one `take_next` per poll, yields after every chunk
    struct Reader<'a> {
        cfg: &'a SCfg,
        sender: &'a OrderingSender,
        expected: &'a [u8],
        sh: Shared,
    }

    impl Future for Reader<'_> {
        type Output = ();
        fn poll(self: Pin<&mut Self>, cx: &mut Context<'_>) -> Poll<()> {
            let this = Pin::get_mut(self);
            let r = this.sender.take_next(cx);
            let mut m = this.sh.borrow_mut();
            let (read, w) = (this.cfg.read(), this.cfg.w);
            let readable = m.occ >= read || (m.closed && m.occ > 0);
            match r {
                Poll::Ready(Some(v)) => {
                    if !readable {
                        let msg = format!("stream yielded {} bytes while {} bytes (< read size {read}) are buffered and the sender is open", v.len(), m.occ);
                        set_err(&mut m, "sender:early-chunk", msg);
                        m.reader_done = true;
                        return Poll::Ready(());
                    }
                    let closed = m.closed;
                    let bad_len = if closed { v.is_empty() || v.len() > read || v.len() > m.occ || v.len() % w != 0 } else { v.len() != read };
                    if bad_len {
                        let msg = format!("stream yielded a chunk of {} bytes; read size {read}, buffered {}, closed {closed}, write size {w}", v.len(), m.occ);
                        set_err(&mut m, if closed { "sender:chunk-len-closed" } else { "sender:chunk-len-open" }, msg);
                        m.reader_done = true;
                        return Poll::Ready(());
                    }
                    let exp = this.expected.get(m.taken..m.taken + v.len());
                    if exp != Some(v.as_slice()) {
                        let msg = format!("stream bytes at offset {} are {:?}, the concatenation in index order has {:?}", m.taken, v, exp);
                        set_err(&mut m, "sender:bytes", msg);
                        m.reader_done = true;
                        return Poll::Ready(());
                    }
                    m.occ -= v.len();
                    m.taken += v.len();
                    m.chunks.push((v.len(), closed));
                    cx.waker().wake_by_ref();
                    Poll::Pending
                }
                Poll::Ready(None) => {
                    if readable || !m.closed {
                        let msg = format!("stream ended with {} bytes buffered, closed = {}", m.occ, m.closed);
                        set_err(&mut m, "sender:early-end", msg);
                    } else if m.taken != this.expected.len() {
                        let msg = format!("stream ended after {} of {} bytes", m.taken, this.expected.len());
                        set_err(&mut m, "sender:lost-bytes", msg);
                    }
                    m.reader_done = true;
                    Poll::Ready(())
                }
                Poll::Pending => {
                    if readable || m.closed {
                        let msg = format!("stream returned Pending with {} bytes buffered (read size {read}), closed = {}", m.occ, m.closed);
                        set_err(&mut m, "sender:reader-blocked", msg);
                        m.reader_done = true;
                        return Poll::Ready(());
                    }
                    m.reader_pending += 1;
                    Poll::Pending
                }
            }
        }
    }

    pub struct Outcome {
        pub polls: usize,
        pub trace: Vec<usize>,
        pub blocked_full: usize,
        pub waiting_turn: usize,
        pub chunks: Vec<(usize, bool)>,
        pub reader_pending: usize,
        pub spurious: usize,
    }

    /// what the scheduler sees before each poll
    pub struct View<'v> {
        pub runnable: &'v [usize],
        pub alive: &'v [usize],
    }

    /// One execution. `pick` returns the id of the task to poll (any live task; polling a live
    /// task that is not runnable is a spurious poll).
    pub fn run_once<N: ArrayLength>(env: &Env, cfg: &SCfg, pick: &mut dyn FnMut(&View<'_>) -> usize) -> Result<Outcome, CaseErr> {
        let nz = |v: usize| NonZeroUsize::new(v).unwrap();
        let sender = OrderingSender::new(nz(cfg.cap()), nz(cfg.w), nz(cfg.read()));
        let expected: Vec<u8> = (0..cfg.n_msgs).flat_map(|i| cfg.msg(i)).collect();
        let k = cfg.tasks.len();
        let sh: Shared = Rc::new(RefCell::new(Model::default()));
        {
            let mut m = sh.borrow_mut();
            m.cur = cfg.tasks.iter().map(|t| t.first().copied()).collect();
            m.cur.push(Some(cfg.n_msgs));
        }
        let make: MakeOp<'_> = make_op::<N>;
        let mut exec = detexec::DetExec::new();
        for (id, idxs) in cfg.tasks.iter().enumerate() {
            exec.spawn(Writer { id, cfg, idxs: idxs.clone(), pos: 0, sender: &sender, make, fut: None, sh: Rc::clone(&sh) });
        }
        let closer = exec.spawn(Writer { id: k, cfg, idxs: vec![cfg.n_msgs], pos: 0, sender: &sender, make, fut: None, sh: Rc::clone(&sh) });
        let reader = exec.spawn(Reader { cfg, sender: &sender, expected: &expected, sh: Rc::clone(&sh) });
        debug_assert_eq!((closer, reader), (k, k + 1));

        let mut trace: Vec<usize> = vec![];
        let mut spurious = 0;
        let case = |trace: &[usize]| {
            let mut c = cfg.json();
            c["schedule"] = json!(trace);
            c["tasks"] = json!(format!("0..{k} writers, {k} closer, {} reader", k + 1));
            c
        };
        let max_polls = 40 * (cfg.n_msgs + k + 4) + 200;
        loop {
            if exec.all_done() {
                break;
            }
            let runnable = exec.runnable();
            if runnable.is_empty() {
                let m = sh.borrow();
                let stuck: Vec<usize> = (0..exec.len()).filter(|&t| !exec.is_done(t)).collect();
                let msg = format!(
                    "no task is runnable but tasks {stuck:?} have not finished (completed operations {}, buffered {}, closed {}): lost wake-up / deadlock",
                    m.next, m.occ, m.closed
                );
                drop(m);
                known_or_violation(env, "sender:deadlock", msg, case(&trace))?;
                break;
            }
            if trace.len() > max_polls {
                return Err(CaseErr::Reject("poll bound exceeded".into()));
            }
            let alive: Vec<usize> = (0..exec.len()).filter(|&t| !exec.is_done(t)).collect();
            let id = pick(&View { runnable: &runnable, alive: &alive });
            if !exec.is_runnable(id) {
                spurious += 1;
            }
            trace.push(id);
            exec.poll(id);
            let err = sh.borrow_mut().err.take();
            if let Some((sig, msg)) = err {
                known_or_violation(env, &sig, msg, case(&trace))?;
                break;
            }
            // wake-up invariant: a task that can make progress in the reference state is runnable
            let m = sh.borrow();
            for t in 0..=k {
                if exec.is_done(t) {
                    continue;
                }
                if let Some(i) = m.cur[t] {
                    let enabled = m.next == i && (i == cfg.n_msgs || m.occ + cfg.w <= cfg.cap());
                    if enabled && !exec.is_runnable(t) {
                        let msg = format!(
                            "after polling task {id}: task {t} waits for index {i}, all earlier operations have completed and the buffer has room ({} of {} bytes), but it has not been woken",
                            m.occ,
                            cfg.cap()
                        );
                        drop(m);
                        known_or_violation(env, "sender:missed-wake-writer", msg, case(&trace))?;
                        return Ok(outcome(&sh, trace, spurious));
                    }
                }
            }
            if !exec.is_done(reader) && (m.occ >= cfg.read() || m.closed) && !exec.is_runnable(reader) {
                let msg = format!("after polling task {id}: {} bytes buffered (read size {}), closed {}, but the stream reader has not been woken", m.occ, cfg.read(), m.closed);
                drop(m);
                known_or_violation(env, "sender:missed-wake-reader", msg, case(&trace))?;
                return Ok(outcome(&sh, trace, spurious));
            }
        }
        Ok(outcome(&sh, trace, spurious))
    }

    fn outcome(sh: &Shared, trace: Vec<usize>, spurious: usize) -> Outcome {
        let m = sh.borrow();
        Outcome {
            polls: trace.len(),
            trace,
            blocked_full: m.blocked_full,
            waiting_turn: m.waiting_turn,
            chunks: m.chunks.clone(),
            reader_pending: m.reader_pending,
            spurious,
        }
    }

    pub fn run_once_sized(env: &Env, cfg: &SCfg, pick: &mut dyn FnMut(&View<'_>) -> usize) -> Result<Outcome, CaseErr> {
        by_size!(cfg.w, run_once(env, cfg, pick))
    }

    // -------------------------------- all schedules (DFS) ---------------------------------

    /// configurations of the exhaustive sub-check: n single-message writers, capacity and read
    /// size in units of the 2-byte message. For n >= 4 only the extreme read sizes (1 and
    /// capacity) are kept.
    pub fn dfs_configs(thorough: bool) -> Vec<(usize, usize, usize)> {
        let mut v = vec![];
        let max_n = dfs_max_n(thorough);
        for n in 0..=max_n {
            for cap in 1..=3usize {
                for read in 1..=cap {
                    if n >= 4 && read != 1 && read != cap {
                        continue;
                    }
                    if n >= 5 && cap == 3 {
                        continue;
                    }
                    v.push((n, cap, read));
                }
            }
        }
        v
    }

    pub fn dfs_max_n(thorough: bool) -> usize {
        if thorough { 5 } else { 4 }
    }

    /// the first DFS_PREFIX polls of a case are fixed by its index (radix = max task count), so
    /// that the big configurations are split over many cases / worker threads
    pub const DFS_PREFIX: usize = 3;
    pub const DFS_BUDGET_QUICK: u64 = 2_000_000;
    pub const DFS_BUDGET_THOROUGH: u64 = 60_000_000;

    pub fn sender_dfs_total(thorough: bool) -> u64 {
        let radix = (dfs_max_n(thorough) + 2) as u64;
        dfs_configs(thorough).len() as u64 * radix.pow(DFS_PREFIX as u32)
    }

    pub fn sender_dfs(env: &Env, src: &mut Src<'_>) -> CaseResult {
        let i = (u64::from(src.raw()) | (u64::from(src.raw()) << 32)) as usize;
        let cfgs = dfs_configs(env.thorough());
        let radix = dfs_max_n(env.thorough()) + 2;
        // configurations are interleaved over the index space (neighbouring indices = different
        // configurations) to balance the worker threads
        let (n, cap_units, read_units) = cfgs[i % cfgs.len()];
        let mut p = i / cfgs.len();
        let mut prefix = [0usize; DFS_PREFIX];
        for d in &mut prefix {
            *d = p % radix;
            p /= radix;
        }
        let trivial = |why: &str| Ok(CaseOk::new(false, &i, Value::Null).label(why.to_string()));
        if prefix.iter().any(|d| *d >= n + 2) {
            return trivial("prefix_not_applicable");
        }
        let cfg = SCfg { w: 2, cap_units, read_units, n_msgs: n, tasks: (0..n).map(|j| vec![j]).collect(), salt: 0x40 };
        let budget = if env.thorough() { DFS_BUDGET_THOROUGH } else { DFS_BUDGET_QUICK };
        // stateless DFS over the choice "which runnable task is polled next"; entries below
        // DFS_PREFIX are pinned
        let mut stack: Vec<(usize, usize)> = prefix.iter().map(|d| (*d, *d + 1)).collect();
        let mut schedules = 0u64;
        let mut complete = true;
        let mut max_polls = 0;
        let mut any_blocked_full = 0u64;
        let mut any_waiting = 0u64;
        loop {
            let mut depth = 0;
            let mut invalid = false;
            let out = {
                let stack = &mut stack;
                let invalid = &mut invalid;
                let depth = &mut depth;
                run_once_sized(env, &cfg, &mut |v: &View<'_>| {
                    let n_run = v.runnable.len();
                    let c = if *depth < stack.len() {
                        stack[*depth].0
                    } else {
                        stack.push((0, n_run));
                        0
                    };
                    *depth += 1;
                    if c >= n_run {
                        *invalid = true;
                        return v.runnable[0];
                    }
                    v.runnable[c]
                })?
            };
            if invalid {
                // only a pinned entry can be out of range (the others were recorded with their radix)
                return trivial("prefix_not_applicable");
            }
            if depth < DFS_PREFIX {
                // the execution is shorter than the prefix: count it once (all unused digits zero)
                if prefix[depth..].iter().any(|d| *d != 0) {
                    return trivial("prefix_not_applicable");
                }
                stack.truncate(depth);
            }
            schedules += 1;
            max_polls = max_polls.max(out.polls);
            any_blocked_full += u64::from(out.blocked_full > 0);
            any_waiting += u64::from(out.waiting_turn > 0);
            // backtrack
            while let Some((c, nn)) = stack.last().copied() {
                if c + 1 < nn {
                    stack.last_mut().unwrap().0 = c + 1;
                    break;
                }
                stack.pop();
            }
            if stack.is_empty() {
                break;
            }
            if schedules >= budget {
                complete = false;
                break;
            }
        }
        let bucket = match schedules {
            0..=9 => "schedules:<10",
            10..=999 => "schedules:10..1e3",
            1000..=99_999 => "schedules:1e3..1e5",
            100_000..=9_999_999 => "schedules:1e5..1e7",
            _ => "schedules:>=1e7",
        };
        let sample = json!({"config": cfg.json(), "first_polls": prefix, "schedules_explored": schedules, "complete": complete,
            "max_polls": max_polls, "schedules_with_writer_blocked_on_full": any_blocked_full, "schedules_with_out_of_turn_arrival": any_waiting});
        Ok(CaseOk::new(n >= 1, &(n, cap_units, read_units, prefix, schedules), sample)
            .label(bucket)
            .label(if complete { "dfs_complete" } else { "dfs_truncated" })
            .label(format!("writers:{n}"))
            .label(if any_blocked_full > 0 { "has_blocked_on_full" } else { "no_blocked_on_full" })
            .label(format!("schedules_log2:{}", 64 - schedules.leading_zeros())))
    }

    // -------------------------------- generated schedules ----------------------------------

    pub fn sender_random(env: &Env, src: &mut Src<'_>) -> CaseResult {
        let w = src.pick(&[1usize, 2, 3, 5, 8]);
        let cap_units = src.pick(&[1usize, 1, 2, 2, 3, 4, 6]);
        let read_units = src.urange(1, cap_units);
        let n_msgs = src.pick(&[0usize, 1, 2, 3, 4, 5, 6, 6, 7, 9, 12]);
        let k = if n_msgs == 0 { 0 } else { src.urange(1, n_msgs.min(6)) };
        let mut tasks: Vec<Vec<usize>> = vec![vec![]; k];
        // every task gets at least one index when possible; ascending order inside a task
        let perm = src.perm(n_msgs);
        for (pos, idx) in perm.iter().enumerate() {
            let t = if pos < k { pos } else { src.idx(k) };
            tasks[t].push(*idx);
        }
        for t in &mut tasks {
            t.sort_unstable();
        }
        let cfg = SCfg { w, cap_units, read_units, n_msgs, tasks, salt: src.below(256) as u8 };
        // schedule style: uniformly random / reader-starved (fills the buffer) / writers in
        // descending index order first (everybody arrives out of turn)
        let style = src.below(4);
        let spurious_den = src.pick(&[0u64, 0, 16, 6]);
        let mut first_round: Vec<usize> = match style {
            2 => (0..k + 2).rev().collect(),
            _ => vec![],
        };
        let reader = k + 1;
        let out = run_once_sized(env, &cfg, &mut |v: &View<'_>| {
            if let Some(t) = first_round.pop() {
                if v.alive.contains(&t) {
                    return t;
                }
            }
            if spurious_den > 0 && src.chance(1, spurious_den) {
                return v.alive[src.idx(v.alive.len())];
            }
            if style == 1 && v.runnable.len() > 1 && src.chance(3, 4) {
                // starve the reader while anything else can run
                let others: Vec<usize> = v.runnable.iter().copied().filter(|t| *t != reader).collect();
                if !others.is_empty() {
                    return others[src.idx(others.len())];
                }
            }
            v.runnable[src.idx(v.runnable.len())]
        })?;
        let total = cfg.n_msgs * cfg.w;
        let open_chunks = out.chunks.iter().filter(|c| !c.1).count();
        let remainder = out.chunks.iter().any(|c| c.1 && c.0 < cfg.read());
        let nontrivial = n_msgs >= 2 && out.waiting_turn > 0;
        let sample = json!({"config": cfg.json(), "schedule": out.trace, "chunks": out.chunks.iter().map(|c| json!([c.0, if c.1 {"closed"} else {"open"}])).collect::<Vec<_>>(),
            "blocked_on_full_polls": out.blocked_full, "out_of_turn_polls": out.waiting_turn});
        let mut ok = CaseOk::new(nontrivial, &(cfg.w, cfg.cap_units, cfg.read_units, &cfg.tasks, &out.trace), sample);
        let mut l = |c: bool, s: &str| {
            if c {
                ok.labels.push(s.to_string());
            }
        };
        l(out.blocked_full > 0, "writer_blocked_on_full");
        l(out.waiting_turn > 0, "out_of_turn_arrival");
        l(out.reader_pending > 0, "reader_waited");
        l(open_chunks > 0, "chunk_before_close");
        l(remainder, "remainder_after_close");
        l(out.spurious > 0, "spurious_polls");
        l(total > cfg.cap(), "stream_longer_than_capacity");
        l(cfg.tasks.iter().any(|t| t.len() > 1), "multi_message_writer");
        l(n_msgs == 0, "no_messages");
        l(cfg.cap() % cfg.read() != 0, "capacity_not_multiple_of_read");
        Ok(ok)
    }
}

// ==========================================================================================
// (c) UnorderedReceiver under the deterministic executor
// ==========================================================================================

#[cfg(not(feature = "shuttle"))]
mod recv_det {
    use std::sync::{Arc, Mutex};

    use futures::Stream;

    use super::*;
    use crate::helpers::buffers::{UnorderedReceiver, UnorderedReceiverError};

    #[derive(Default)]
    struct FedInner {
        q: VecDeque<Vec<u8>>,
        closed: bool,
        waker: Option<Waker>,
        /// observations
        pulled_pending: usize,
    }

    /// a chunk stream fed by the harness; wakes the last poller when a chunk arrives or it closes
    #[derive(Clone, Default)]
    struct Fed(Arc<Mutex<FedInner>>);

    impl Fed {
        fn push(&self, c: Vec<u8>) {
            let mut g = self.0.lock().unwrap();
            g.q.push_back(c);
            if let Some(w) = g.waker.take() {
                w.wake();
            }
        }
        fn close(&self) {
            let mut g = self.0.lock().unwrap();
            g.closed = true;
            if let Some(w) = g.waker.take() {
                w.wake();
            }
        }
    }

    impl Stream for Fed {
        type Item = Vec<u8>;
        fn poll_next(self: Pin<&mut Self>, cx: &mut Context<'_>) -> Poll<Option<Vec<u8>>> {
            let mut g = self.0.lock().unwrap();
            if let Some(c) = g.q.pop_front() {
                Poll::Ready(Some(c))
            } else if g.closed {
                Poll::Ready(None)
            } else {
                g.waker = Some(cx.waker().clone());
                g.pulled_pending += 1;
                Poll::Pending
            }
        }
    }

    #[derive(Clone, Debug)]
    pub struct RCfg {
        pub s: usize,
        pub cap: usize,
        pub stream: Vec<u8>,
        /// chunk lengths (sum = stream length; zero-length chunks allowed)
        pub chunks: Vec<usize>,
        /// requested indices (distinct); request `m` is the one that must see the end of stream
        pub requests: Vec<usize>,
        /// per request (same positions as `requests`), only applied when nothing was fed before the
        /// first poll: 0 = nothing; 1 = an earlier request for the same index was polled once with
        /// another waker and dropped; 2 = the request's future was polled once with another waker
        /// before the task that owns it polls it (the future moved between contexts)
        pub prepoll: Vec<u8>,
    }

    impl RCfg {
        pub fn m(&self) -> usize {
            self.stream.len() / self.s
        }
        pub fn json(&self) -> Value {
            json!({"message_size": self.s, "capacity": self.cap, "stream": self.stream, "chunks": self.chunks, "requests": self.requests, "prepoll": self.prepoll})
        }
    }

    #[derive(Default)]
    struct RModel {
        /// number of receives completed = index whose turn it is
        next: usize,
        /// bytes handed to the stream so far, and whether the stream has been closed
        pushed: usize,
        closed: bool,
        err: Option<(String, String)>,
        done: Vec<bool>,
        // observations
        beyond_capacity: usize,
        ahead: usize,
        waited_for_data: usize,
        deser_err: usize,
        deser_err_index_plus_one: usize,
        deser_err_index_exact: usize,
        eos_seen: bool,
    }

    type Shared = Rc<RefCell<RModel>>;

    struct RecvTask<'a, N: ArrayLength, F: Future<Output = Result<Bytes<N>, UnorderedReceiverError>>> {
        j: usize,
        cfg: &'a RCfg,
        fut: Pin<Box<F>>,
        sh: Shared,
        first: bool,
    }

    impl<N: ArrayLength, F: Future<Output = Result<Bytes<N>, UnorderedReceiverError>>> Future for RecvTask<'_, N, F> {
        type Output = ();
        fn poll(self: Pin<&mut Self>, cx: &mut Context<'_>) -> Poll<()> {
            let this = Pin::get_mut(self);
            let (j, s, m_total) = (this.j, this.cfg.s, this.cfg.m());
            let (turn, have, closed, next) = {
                let m = this.sh.borrow();
                (m.next == j, m.pushed >= (j + 1) * s, m.closed, m.next)
            };
            let expect_ready = turn && (have || closed);
            let r = this.fut.as_mut().poll(cx);
            let mut m = this.sh.borrow_mut();
            if this.first {
                this.first = false;
                if j > next {
                    m.ahead += 1;
                }
                if j > next + this.cfg.cap {
                    m.beyond_capacity += 1;
                }
            }
            let fail = |m: &mut RModel, sig: &str, msg: String| {
                if m.err.is_none() {
                    m.err = Some((sig.to_string(), msg));
                }
                m.done[j] = true;
                Poll::Ready(())
            };
            match r {
                Poll::Pending => {
                    if expect_ready {
                        let msg = format!("recv({j}) returned Pending although receives 0..{j} have completed and {} bytes have arrived (closed {closed})", m.pushed);
                        return fail(&mut m, "recv:blocked", msg);
                    }
                    if turn {
                        m.waited_for_data += 1;
                    }
                    Poll::Pending
                }
                Poll::Ready(res) => {
                    if !expect_ready {
                        let msg = format!("recv({j}) completed with {res:?} although only {next} receives have completed / {} bytes have arrived", m.pushed);
                        return fail(&mut m, "recv:out-of-turn", msg);
                    }
                    if j < m_total {
                        let bytes = &this.cfg.stream[j * s..(j + 1) * s];
                        match res {
                            Ok(v) => {
                                if bytes[0] == POISON {
                                    let msg = format!("recv({j}) returned {v:?} for bytes that do not deserialize");
                                    return fail(&mut m, "recv:missing-deserialize-error", msg);
                                }
                                if v.0.as_slice() != bytes {
                                    let msg = format!("recv({j}) returned {:?}, the {j}-th message of the stream is {:?}", v.0.as_slice(), bytes);
                                    return fail(&mut m, "recv:wrong-message", msg);
                                }
                            }
                            Err(UnorderedReceiverError::DeserializeFailed(e)) => {
                                if bytes[0] != POISON {
                                    let msg = format!("recv({j}) failed with {e} for a valid message");
                                    return fail(&mut m, "recv:spurious-deserialize-error", msg);
                                }
                                m.deser_err += 1;
                                // observation only: which record id the error text names
                                let txt = format!("{e}");
                                if txt.contains(&format!("RecordId({})", j + 1)) {
                                    m.deser_err_index_plus_one += 1;
                                } else if txt.contains(&format!("RecordId({j})")) {
                                    m.deser_err_index_exact += 1;
                                }
                            }
                            Err(UnorderedReceiverError::EndOfStream(e)) => {
                                let msg = format!("recv({j}) failed with {e} although the stream holds {m_total} complete messages");
                                return fail(&mut m, "recv:early-end-of-stream", msg);
                            }
                        }
                    } else {
                        match res {
                            Err(UnorderedReceiverError::EndOfStream(_)) => m.eos_seen = true,
                            other => {
                                let msg = format!("recv({j}) returned {other:?} although the stream ends after {m_total} complete messages");
                                return fail(&mut m, "recv:missing-end-of-stream", msg);
                            }
                        }
                    }
                    m.next += 1;
                    m.done[j] = true;
                    Poll::Ready(())
                }
            }
        }
    }

    pub struct ROutcome {
        pub trace: Vec<i64>,
        pub beyond_capacity: usize,
        pub ahead: usize,
        pub waited_for_data: usize,
        pub deser_err: usize,
        pub deser_err_index_plus_one: usize,
        pub deser_err_index_exact: usize,
        pub eos_seen: bool,
        pub spurious: usize,
        pub stream_pending: usize,
    }

    pub struct RView<'v> {
        /// runnable request tasks (task id = position in cfg.requests)
        pub runnable: &'v [usize],
        pub alive: &'v [usize],
        /// chunks not yet handed to the stream (the feeder can act while > 0 or until it closed)
        pub feeder_can_act: bool,
    }

    pub enum Act {
        Poll(usize),
        /// hand the next chunk to the stream (or close it when none is left)
        Feed,
    }

    /// One execution. All chunks in `prefed` are available (and the stream closed if
    /// `prefed == chunks.len()` and `preclosed`) before the first request is polled.
    pub fn run_once<N: ArrayLength>(env: &Env, cfg: &RCfg, prefed: usize, pick: &mut dyn FnMut(&RView<'_>) -> Act) -> Result<ROutcome, CaseErr> {
        let fed = Fed::default();
        let recv = UnorderedReceiver::new(Box::pin(fed.clone()), NonZeroUsize::new(cfg.cap).unwrap());
        let sh: Shared = Rc::new(RefCell::new(RModel::default()));
        let max_req = cfg.requests.iter().copied().max().unwrap_or(0);
        sh.borrow_mut().done = vec![false; max_req + 1];
        let mut chunk_iter = {
            let mut off = 0;
            cfg.chunks
                .iter()
                .map(|l| {
                    let c = cfg.stream[off..off + l].to_vec();
                    off += l;
                    c
                })
                .collect::<VecDeque<_>>()
        };
        let mut feeder_closed = false;
        let mut feed = |sh: &Shared, chunk_iter: &mut VecDeque<Vec<u8>>, feeder_closed: &mut bool| {
            if let Some(c) = chunk_iter.pop_front() {
                sh.borrow_mut().pushed += c.len();
                fed.push(c);
            } else if !*feeder_closed {
                *feeder_closed = true;
                sh.borrow_mut().closed = true;
                fed.close();
            }
        };
        for _ in 0..prefed {
            feed(&sh, &mut chunk_iter, &mut feeder_closed);
        }
        let mut exec = detexec::DetExec::new();
        for (pos, &j) in cfg.requests.iter().enumerate() {
            let mut fut = Box::pin(recv.recv::<Bytes<N>, usize>(j));
            let pre = if prefed == 0 { cfg.prepoll.get(pos).copied().unwrap_or(0) } else { 0 };
            if pre != 0 {
                // a poll from a foreign context: its waker must not be the one that is kept once
                // the owning task polls the request
                let w = futures::task::noop_waker();
                let mut cx = Context::from_waker(&w);
                if pre == 1 {
                    let mut early = Box::pin(recv.recv::<Bytes<N>, usize>(j));
                    let _ = early.as_mut().poll(&mut cx);
                    drop(early);
                } else if fut.as_mut().poll(&mut cx).is_ready() {
                    // nothing has been fed yet, so only a zero-length stream could be ready here
                    return Err(CaseErr::Reject("pre-poll completed".into()));
                }
            }
            exec.spawn(RecvTask::<N, _> { j, cfg, fut, sh: Rc::clone(&sh), first: true });
        }
        let mut trace: Vec<i64> = vec![];
        let mut spurious = 0;
        let case = |trace: &[i64]| {
            let mut c = cfg.json();
            c["prefed_chunks"] = json!(prefed);
            c["schedule"] = json!(trace);
            c["schedule_legend"] = json!("k >= 0: poll the task of requests[k]; -1: next chunk (or end of stream) arrives");
            c
        };
        let max_steps = 60 * (cfg.requests.len() + cfg.chunks.len() + 4);
        loop {
            if exec.all_done() {
                break;
            }
            let runnable = exec.runnable();
            let feeder_can_act = !feeder_closed;
            if runnable.is_empty() && !feeder_can_act {
                let m = sh.borrow();
                let stuck: Vec<usize> = (0..exec.len()).filter(|&t| !exec.is_done(t)).map(|t| cfg.requests[t]).collect();
                let msg = format!(
                    "the whole stream ({} bytes) has arrived and ended, {} receives completed, but the requests for {stuck:?} are neither runnable nor finished: lost wake-up",
                    m.pushed, m.next
                );
                drop(m);
                // requests past the end-of-stream index are outside the property (nothing can be
                // handed to them); they are never generated, so every stuck task is a finding
                known_or_violation(env, "recv:deadlock", msg, case(&trace))?;
                break;
            }
            if trace.len() > max_steps {
                return Err(CaseErr::Reject("step bound exceeded".into()));
            }
            let alive: Vec<usize> = (0..exec.len()).filter(|&t| !exec.is_done(t)).collect();
            match pick(&RView { runnable: &runnable, alive: &alive, feeder_can_act }) {
                Act::Feed => {
                    trace.push(-1);
                    feed(&sh, &mut chunk_iter, &mut feeder_closed);
                }
                Act::Poll(t) => {
                    if !exec.is_runnable(t) {
                        spurious += 1;
                    }
                    trace.push(t as i64);
                    exec.poll(t);
                }
            }
            let err = sh.borrow_mut().err.take();
            if let Some((sig, msg)) = err {
                known_or_violation(env, &sig, msg, case(&trace))?;
                break;
            }
            // wake-up invariant: the request whose turn it is and whose data (or the end of the
            // stream) has arrived is runnable
            let m = sh.borrow();
            for t in 0..exec.len() {
                let j = cfg.requests[t];
                if !exec.is_done(t) && m.next == j && (m.pushed >= (j + 1) * cfg.s || m.closed) && !exec.is_runnable(t) {
                    let msg = format!("receives 0..{j} have completed and {} bytes have arrived (closed {}), but the request for {j} has not been woken", m.pushed, m.closed);
                    drop(m);
                    known_or_violation(env, "recv:missed-wake", msg, case(&trace))?;
                    return Ok(outcome(&sh, &fed, trace, spurious));
                }
            }
        }
        Ok(outcome(&sh, &fed, trace, spurious))
    }

    fn outcome(sh: &Shared, fed: &Fed, trace: Vec<i64>, spurious: usize) -> ROutcome {
        let m = sh.borrow();
        ROutcome {
            trace,
            beyond_capacity: m.beyond_capacity,
            ahead: m.ahead,
            waited_for_data: m.waited_for_data,
            deser_err: m.deser_err,
            deser_err_index_plus_one: m.deser_err_index_plus_one,
            deser_err_index_exact: m.deser_err_index_exact,
            eos_seen: m.eos_seen,
            spurious,
            stream_pending: fed.0.lock().unwrap().pulled_pending,
        }
    }

    pub fn run_once_sized(env: &Env, cfg: &RCfg, prefed: usize, pick: &mut dyn FnMut(&RView<'_>) -> Act) -> Result<ROutcome, CaseErr> {
        by_size!(cfg.s, run_once(env, cfg, prefed, pick))
    }

    // -------------------------- exhaustive: chunkings x request orders ----------------------

    #[derive(Clone, Copy, Debug)]
    pub struct Block {
        s: usize,
        len: usize,
        m: usize,
        perms: u64,
        chunkings: u64,
        count: u64,
    }

    const CAPS: [usize; 3] = [2, 3, 4];
    pub const RECV_QUICK_BLOCK_LIMIT: u64 = 2_500_000;

    fn fact(n: usize) -> u64 {
        (1..=n as u64).product()
    }

    /// blocks of the enumerated space, ascending by size (the quick tier takes the prefix of
    /// blocks below RECV_QUICK_BLOCK_LIMIT)
    pub fn blocks() -> Vec<Block> {
        let mut v = vec![];
        for s in 1..=8usize {
            for len in 1..=12usize {
                let m = len / s;
                if m > 6 {
                    continue;
                }
                let perms = fact(m + 1);
                let chunkings = 1u64 << (len - 1);
                v.push(Block { s, len, m, perms, chunkings, count: perms * chunkings * CAPS.len() as u64 });
            }
        }
        v.sort_by_key(|b| (b.count, b.s, b.len));
        v
    }

    pub fn recv_exh_total(thorough: bool) -> u64 {
        blocks().iter().filter(|b| thorough || b.count <= RECV_QUICK_BLOCK_LIMIT).map(|b| b.count).sum()
    }

    fn nth_perm(n: usize, mut k: u64) -> Vec<usize> {
        let mut items: Vec<usize> = (0..n).collect();
        let mut out = Vec::with_capacity(n);
        for i in (1..=n).rev() {
            let f = fact(i - 1);
            let d = (k / f) as usize;
            k %= f;
            out.push(items.remove(d.min(items.len() - 1)));
        }
        out
    }

    thread_local! {
        static BLOCKS: Vec<Block> = blocks();
    }

    pub fn recv_exhaustive(env: &Env, src: &mut Src<'_>) -> CaseResult {
        let i = u64::from(src.raw()) | (u64::from(src.raw()) << 32);
        let (b, mut rest) = BLOCKS.with(|bl| {
            let mut rest = i;
            for b in bl {
                if rest < b.count {
                    return (*b, rest);
                }
                rest -= b.count;
            }
            panic!("index {i} outside the enumerated space");
        });
        let cap = CAPS[(rest % CAPS.len() as u64) as usize];
        rest /= CAPS.len() as u64;
        let mask = rest % b.chunkings;
        let perm_idx = rest / b.chunkings;
        let requests = nth_perm(b.m + 1, perm_idx);
        // chunking: bit k of mask set = cut after byte k
        let mut chunks = vec![];
        let mut cur = 0;
        for k in 0..b.len {
            cur += 1;
            if k + 1 == b.len || (mask >> k) & 1 == 1 {
                chunks.push(cur);
                cur = 0;
            }
        }
        // stream bytes: all different; derived dimensions (not enumerated): which message is
        // poisoned (if any) and the order in which woken requests run
        let h = digest(&(i, "recv-exh"));
        let mut stream: Vec<u8> = (0..b.len).map(|k| (k as u8).wrapping_mul(19).wrapping_add(1)).collect();
        let poison = (h % (b.m as u64 + 2)) as usize; // >= m: none
        if poison < b.m {
            stream[poison * b.s] = POISON;
        }
        let eager = (h >> 8) & 1 == 1;
        let highest_first = (h >> 9) & 1 == 1;
        let cfg = RCfg { s: b.s, cap, stream, chunks, requests, prepoll: vec![] };
        let n_chunks = cfg.chunks.len();
        // requests are first polled in the order of `requests`; woken requests run either
        // immediately (eager) or after all first polls
        let mut first_polls: VecDeque<usize> = (0..cfg.requests.len()).collect();
        let mut polled = vec![false; cfg.requests.len()];
        let out = run_once_sized(env, &cfg, n_chunks + 1, &mut |v: &RView<'_>| {
            let woken: Vec<usize> = v.runnable.iter().copied().filter(|t| polled[*t]).collect();
            if !woken.is_empty() && (eager || first_polls.is_empty()) {
                return Act::Poll(if highest_first { *woken.last().unwrap() } else { woken[0] });
            }
            while let Some(t) = first_polls.pop_front() {
                if v.alive.contains(&t) {
                    polled[t] = true;
                    return Act::Poll(t);
                }
            }
            Act::Poll(v.runnable[0])
        })?;
        let nontrivial = b.m >= 2 && out.ahead > 0;
        let sample = json!({"case": cfg.json(), "poisoned_message": if poison < b.m { json!(poison) } else { Value::Null }, "eager": eager});
        let mut ok = CaseOk::new(nontrivial, &(b.s, b.len, cap, mask, perm_idx), sample);
        let mut l = |c: bool, s: &str| {
            if c {
                ok.labels.push(s.to_string());
            }
        };
        l(out.ahead > 0, "request_ahead_of_turn");
        l(out.beyond_capacity > 0, "request_beyond_capacity");
        l(out.deser_err > 0, "deserialize_error");
        l(out.deser_err_index_plus_one > 0, "observation:deserialize_error_names_index_plus_one");
        l(out.deser_err_index_exact > 0, "observation:deserialize_error_names_exact_index");
        l(cfg.chunks.iter().any(|c| *c % b.s != 0), "chunk_splits_message");
        l(b.len % b.s != 0, "trailing_partial_message");
        l(b.m == 0, "no_complete_message");
        Ok(ok)
    }

    // -------------------------- generated arrival and request schedules ---------------------

    pub fn recv_random(env: &Env, src: &mut Src<'_>) -> CaseResult {
        let s = src.urange(1, 8);
        let m = src.pick(&[0usize, 1, 2, 3, 4, 5, 6, 6, 8, 11, 16, 24]);
        let tail = if src.chance(1, 3) { src.idx(s) } else { 0 };
        let len = m * s + tail;
        let cap = src.pick(&[2usize, 2, 3, 3, 4, 5, 8]);
        let mut stream = src.bytes(len);
        for b in &mut stream {
            if *b == POISON {
                *b = 0;
            }
        }
        let n_poison = if m > 0 { src.pick(&[0usize, 0, 1, 2]) } else { 0 };
        for _ in 0..n_poison {
            let p = src.idx(m);
            stream[p * s] = POISON;
        }
        // chunking
        let mut chunks = vec![];
        let mut left = len;
        let style = src.below(5);
        while left > 0 {
            let c = match style {
                0 => 1,
                1 => s,
                2 => left,
                3 => src.pick(&[s.saturating_sub(1).max(1), s + 1, 2 * s + 1, 1]),
                _ => src.urange(0, (3 * s).min(left)),
            }
            .min(left);
            chunks.push(c);
            left -= c;
        }
        if src.chance(1, 6) {
            let at = src.idx(chunks.len() + 1);
            chunks.insert(at, 0);
        }
        // requests: all of 0..=m, first-polled in a generated order (biased to "far ahead first")
        let mut requests: Vec<usize> = (0..=m).collect();
        match src.below(4) {
            0 => {}
            1 => requests.reverse(),
            _ => {
                let p = src.perm(m + 1);
                requests = p;
            }
        }
        // waker changes: a third of the cases abandon / migrate some requests before any data arrives
        let prepoll: Vec<u8> = if src.chance(1, 3) { (0..requests.len()).map(|_| src.pick(&[0u8, 0, 1, 2])).collect() } else { vec![] };
        let cfg = RCfg { s, cap, stream, chunks, requests, prepoll };
        let n_chunks = cfg.chunks.len();
        let prefed = match src.below(4) {
            _ if cfg.prepoll.iter().any(|p| *p != 0) => 0,
            0 => 0,
            1 => n_chunks + 1,
            _ => src.idx(n_chunks + 1),
        };
        let spurious_den = src.pick(&[0u64, 0, 12, 5]);
        // feeder speed: probability that the next action is a chunk arrival
        let feed_num = src.pick(&[1u64, 1, 3, 6]);
        let lazy_first = src.bool();
        let mut first_polls: Vec<usize> = (0..cfg.requests.len()).rev().collect();
        let out = run_once_sized(env, &cfg, prefed, &mut |v: &RView<'_>| {
            if v.feeder_can_act && (v.runnable.is_empty() || src.chance(feed_num, 8)) {
                return Act::Feed;
            }
            if lazy_first {
                // register every request in the generated order before anything else runs
                while let Some(t) = first_polls.pop() {
                    if v.alive.contains(&t) {
                        return Act::Poll(t);
                    }
                }
            }
            if spurious_den > 0 && src.chance(1, spurious_den) {
                return Act::Poll(v.alive[src.idx(v.alive.len())]);
            }
            Act::Poll(v.runnable[src.idx(v.runnable.len())])
        })?;
        let nontrivial = m >= 2 && out.ahead > 0;
        let waker_changes = cfg.prepoll.iter().filter(|p| **p != 0).count();
        let sample = json!({"case": cfg.json(), "prefed_chunks": prefed, "schedule": out.trace});
        let mut ok = CaseOk::new(nontrivial, &(s, cap, &cfg.stream, &cfg.chunks, &cfg.requests, &out.trace), sample);
        let mut l = |c: bool, s: &str| {
            if c {
                ok.labels.push(s.to_string());
            }
        };
        l(out.ahead > 0, "request_ahead_of_turn");
        l(out.beyond_capacity > 0, "request_beyond_capacity");
        l(out.waited_for_data > 0, "request_before_data");
        l(out.stream_pending > 0, "stream_returned_pending");
        l(out.deser_err > 0, "deserialize_error");
        l(out.deser_err_index_plus_one > 0, "observation:deserialize_error_names_index_plus_one");
        l(out.deser_err_index_exact > 0, "observation:deserialize_error_names_exact_index");
        l(out.spurious > 0, "spurious_polls");
        l(cfg.chunks.iter().any(|c| *c % s != 0), "chunk_splits_message");
        l(cfg.chunks.iter().any(|c| *c == 0), "empty_chunk");
        l(tail > 0, "trailing_partial_message");
        l(m > 6, "more_than_6_messages");
        l(m == 0, "no_complete_message");
        l(waker_changes > 0, "request_repolled_with_another_waker");
        Ok(ok)
    }
}

// ==========================================================================================
// E2: thread-level interleavings under shuttle (`--features shuttle`)
// ==========================================================================================

#[cfg(feature = "shuttle")]
mod shuttle_subs {
    use std::sync::Arc as StdArc;

    use futures::Stream;
    use shuttle::{
        Config, FailurePersistence, MaxSteps, Runner,
        scheduler::{PctScheduler, RandomScheduler},
    };

    use super::*;
    use crate::helpers::buffers::{OrderingSender, UnorderedReceiver, UnorderedReceiverError};

    /// Run `iters` schedules of `f` under a seeded scheduler. An oracle failure inside `f` is a
    /// panic whose message starts with `C14|<signature>|`.
    fn explore(env: &Env, kind: u64, seed: u64, iters: usize, case: &Value, f: impl Fn() + Send + Sync + 'static) -> Result<(), CaseErr> {
        let mut cfg = Config::new();
        cfg.failure_persistence = FailurePersistence::None;
        cfg.max_steps = MaxSteps::FailAfter(500_000);
        cfg.silence_warnings = true;
        let r = catch(move || match kind {
            0 => Runner::new(RandomScheduler::new_from_seed(seed, iters), cfg).run(f),
            k => Runner::new(PctScheduler::new_from_seed(seed, (k + 1) as usize, iters), cfg).run(f),
        });
        match r {
            Ok(_) => Ok(()),
            Err((loc, msg)) => {
                let (sig, text) = if let Some(rest) = msg.strip_prefix("C14|") {
                    let mut it = rest.splitn(2, '|');
                    (it.next().unwrap_or("?").to_string(), it.next().unwrap_or("").to_string())
                } else if msg.starts_with("deadlock!") {
                    ("shuttle:deadlock".to_string(), format!("shuttle found a schedule where no thread can run: {msg}"))
                } else if msg.starts_with("exceeded max_steps") {
                    ("shuttle:max-steps".to_string(), msg.clone())
                } else {
                    (format!("panic:{}", loc_file(&loc)), format!("panic at {loc}: {msg}"))
                };
                let mut c = case.clone();
                c["scheduler"] = json!({"kind": if kind == 0 { "random".to_string() } else { format!("pct depth {}", kind + 1) }, "seed": seed, "iterations": iters});
                known_or_violation(env, &sig, text, c)
            }
        }
    }

    fn sender_body<N: ArrayLength>(w: usize, cap_units: usize, read_units: usize, tasks: &[Vec<usize>], n_msgs: usize, salt: u8) {
        let nz = |v: usize| NonZeroUsize::new(v).unwrap();
        let msg = move |i: usize| -> Vec<u8> { (0..w).map(|k| (i as u8).wrapping_mul(31).wrapping_add((k as u8).wrapping_mul(7)).wrapping_add(salt)).collect() };
        let sender = StdArc::new(OrderingSender::new(nz(cap_units * w), nz(w), nz(read_units * w)));
        let mut handles = vec![];
        for idxs in tasks {
            let sender = StdArc::clone(&sender);
            let idxs = idxs.clone();
            handles.push(shuttle::thread::spawn(move || {
                for i in idxs {
                    shuttle::future::block_on(sender.send::<Bytes<N>, Bytes<N>>(i, Bytes::<N>::from_slice(&msg(i))));
                }
            }));
        }
        {
            let sender = StdArc::clone(&sender);
            handles.push(shuttle::thread::spawn(move || {
                shuttle::future::block_on(sender.close(n_msgs));
            }));
        }
        let reader = {
            let sender = StdArc::clone(&sender);
            shuttle::thread::spawn(move || {
                let mut chunks: Vec<Vec<u8>> = vec![];
                while let Some(c) = shuttle::future::block_on(std::future::poll_fn(|cx| sender.take_next(cx))) {
                    chunks.push(c);
                }
                chunks
            })
        };
        for h in handles {
            h.join().unwrap();
        }
        let chunks = reader.join().unwrap();
        let expected: Vec<u8> = (0..n_msgs).flat_map(msg).collect();
        let got: Vec<u8> = chunks.iter().flatten().copied().collect();
        if got != expected {
            panic!("C14|sender:bytes|the stream delivered {got:?}, the concatenation in index order is {expected:?} (chunks {:?})", chunks.iter().map(Vec::len).collect::<Vec<_>>());
        }
        let read = read_units * w;
        for (k, c) in chunks.iter().enumerate() {
            if c.is_empty() || c.len() > read || c.len() % w != 0 {
                panic!("C14|sender:chunk-len|chunk {k} has {} bytes (read size {read}, write size {w})", c.len());
            }
        }
        // a chunk shorter than the read size exists only after the close, i.e. after the last message:
        // everything before it must be full chunks
        if let Some(k) = chunks.iter().position(|c| c.len() < read) {
            let before: usize = chunks[..k].iter().map(Vec::len).sum();
            if before % read != 0 {
                panic!("C14|sender:chunk-len|short chunk {k} after {before} bytes that are not a multiple of the read size {read}");
            }
        }
    }

    pub fn sender_shuttle(env: &Env, src: &mut Src<'_>) -> CaseResult {
        let w = src.pick(&[1usize, 2, 3, 5, 8]);
        let cap_units = src.pick(&[1usize, 1, 2, 2, 3, 4, 6]);
        let read_units = src.urange(1, cap_units);
        let n_msgs = src.pick(&[1usize, 2, 3, 4, 5, 6, 6, 8]);
        // mostly several writer threads (the index hand-over between threads is the point here)
        let k = if src.chance(1, 8) { 1 } else { src.urange(n_msgs.min(2), n_msgs.min(6)) };
        let mut tasks: Vec<Vec<usize>> = vec![vec![]; k];
        let perm = src.perm(n_msgs);
        for (pos, idx) in perm.iter().enumerate() {
            let t = if pos < k { pos } else { src.idx(k) };
            tasks[t].push(*idx);
        }
        for t in &mut tasks {
            t.sort_unstable();
        }
        let salt = src.below(256) as u8;
        let kind = src.below(4); // random, pct depth 2..4
        let seed = src.seed();
        let iters = if env.thorough() { 200 } else { 40 };
        let case = json!({"write_size": w, "capacity": cap_units * w, "read_size": read_units * w, "messages": n_msgs, "writer_threads": tasks});
        let t2 = tasks.clone();
        explore(env, kind, seed, iters, &case, move || by_size!(w, sender_body(w, cap_units, read_units, &t2, n_msgs, salt)))?;
        Ok(CaseOk::new(n_msgs >= 2 && k >= 2, &(w, cap_units, read_units, &tasks, kind, seed), case)
            .label(if kind == 0 { "random_scheduler".to_string() } else { format!("pct_depth_{}", kind + 1) })
            .label(format!("writer_threads:{k}"))
            .label(if n_msgs > cap_units { "stream_longer_than_capacity" } else { "fits_capacity" }))
    }

    // ---------------------------------- receiver ------------------------------------------

    #[derive(Default)]
    struct FedInner {
        q: VecDeque<Vec<u8>>,
        closed: bool,
        waker: Option<Waker>,
    }

    /// chunk stream fed by a shuttle thread (shuttle mutex: its lock is a scheduling point)
    #[derive(Clone)]
    struct Fed(crate::sync::Arc<crate::sync::Mutex<FedInner>>);

    impl Stream for Fed {
        type Item = Vec<u8>;
        fn poll_next(self: Pin<&mut Self>, cx: &mut Context<'_>) -> Poll<Option<Vec<u8>>> {
            let mut g = self.0.lock().unwrap();
            if let Some(c) = g.q.pop_front() {
                Poll::Ready(Some(c))
            } else if g.closed {
                Poll::Ready(None)
            } else {
                g.waker = Some(cx.waker().clone());
                Poll::Pending
            }
        }
    }

    fn recv_body<N: ArrayLength>(s: usize, cap: usize, stream: &[u8], chunks: &[usize], requests: &[usize], prefed: usize) {
        let fed = Fed(crate::sync::Arc::new(crate::sync::Mutex::new(FedInner::default())));
        let mut parts: VecDeque<Vec<u8>> = VecDeque::new();
        let mut off = 0;
        for l in chunks {
            parts.push_back(stream[off..off + l].to_vec());
            off += l;
        }
        for _ in 0..prefed.min(parts.len()) {
            let c = parts.pop_front().unwrap();
            fed.0.lock().unwrap().q.push_back(c);
        }
        let recv = UnorderedReceiver::new(Box::pin(fed.clone()), NonZeroUsize::new(cap).unwrap());
        let feeder = {
            let fed = fed.clone();
            shuttle::thread::spawn(move || {
                for c in parts {
                    let w = {
                        let mut g = fed.0.lock().unwrap();
                        g.q.push_back(c);
                        g.waker.take()
                    };
                    if let Some(w) = w {
                        w.wake();
                    }
                }
                let w = {
                    let mut g = fed.0.lock().unwrap();
                    g.closed = true;
                    g.waker.take()
                };
                if let Some(w) = w {
                    w.wake();
                }
            })
        };
        let m = stream.len() / s;
        let mut handles = vec![];
        for &j in requests {
            let recv = recv.clone();
            let want: Option<Vec<u8>> = (j < m).then(|| stream[j * s..(j + 1) * s].to_vec());
            handles.push(shuttle::thread::spawn(move || {
                let r = shuttle::future::block_on(recv.recv::<Bytes<N>, usize>(j));
                match (want, r) {
                    (Some(b), Ok(v)) if b[0] != POISON && v.0.as_slice() == b.as_slice() => {}
                    (Some(b), Err(UnorderedReceiverError::DeserializeFailed(_))) if b[0] == POISON => {}
                    (None, Err(UnorderedReceiverError::EndOfStream(_))) => {}
                    (want, r) => panic!("C14|recv:wrong-result|recv({j}) returned {r:?}; the stream has {want:?} at this index (None = end of stream)"),
                }
            }));
        }
        feeder.join().unwrap();
        for h in handles {
            h.join().unwrap();
        }
    }

    pub fn recv_shuttle(env: &Env, src: &mut Src<'_>) -> CaseResult {
        let s = src.pick(&[1usize, 2, 3, 5, 8]);
        let m = src.pick(&[1usize, 2, 3, 4, 5, 6, 6, 9]);
        let tail = if src.chance(1, 3) { src.idx(s) } else { 0 };
        let len = m * s + tail;
        let cap = src.pick(&[2usize, 2, 3, 4]);
        let mut stream = src.bytes(len);
        for b in &mut stream {
            if *b == POISON {
                *b = 0;
            }
        }
        if src.chance(1, 3) {
            let p = src.idx(m);
            stream[p * s] = POISON;
        }
        let mut chunks = vec![];
        let mut left = len;
        let style = src.below(4);
        while left > 0 {
            let c = match style {
                0 => 1,
                1 => s,
                2 => left,
                _ => src.urange(1, (2 * s + 1).min(left)),
            }
            .min(left);
            chunks.push(c);
            left -= c;
        }
        let mut requests: Vec<usize> = (0..=m).collect();
        match src.below(3) {
            0 => {}
            1 => requests.reverse(),
            _ => requests = src.perm(m + 1),
        }
        let prefed = src.idx(chunks.len() + 1);
        let kind = src.below(4);
        let seed = src.seed();
        let iters = if env.thorough() { 200 } else { 40 };
        let case = json!({"message_size": s, "capacity": cap, "stream": stream, "chunks": chunks, "request_spawn_order": requests, "prefed_chunks": prefed});
        let (st, ch, rq) = (stream.clone(), chunks.clone(), requests.clone());
        explore(env, kind, seed, iters, &case, move || by_size!(s, recv_body(s, cap, &st, &ch, &rq, prefed)))?;
        Ok(CaseOk::new(m >= 2, &(s, cap, &stream, &chunks, &requests, kind, seed), case)
            .label(if kind == 0 { "random_scheduler".to_string() } else { format!("pct_depth_{}", kind + 1) })
            .label(if m > cap { "requests_beyond_capacity" } else { "within_capacity" }))
    }
}

// ==========================================================================================
// registry
// ==========================================================================================

pub fn subs(env: &Env) -> Vec<Sub> {
    let mut v: Vec<Sub> = vec![];
    // (a) does not involve crate::sync: it runs in the default build only
    #[cfg(not(feature = "shuttle"))]
    v.extend([
        Sub::exhaustive(
            "circ_exhaustive",
            circ_exh_total(CIRC_DEPTH_QUICK),
            circ_exh_total(CIRC_DEPTH_THOROUGH),
            circ_exhaustive,
            "CircularBuf: every sequence over {write, take, close} of depth 11 (thorough 14) for all 27 triples (write 1..3 bytes, read 1..3 writes, capacity read..4 writes), then close and drain, against a VecDeque<u8>; len/can_read/can_write/is_closed/capacity compared after every step; operations whose documented precondition fails in the reference state are skipped; non-trivial = wrapped around (more bytes written than the capacity) and at least one take returned data; distinct = distinct effective sequences",
        ),
        Sub::random(
            "circ_random",
            400,
            600_000,
            10_000_000,
            circ_random,
            "CircularBuf: up to 120 generated operations (single ops and fill/drain bursts, optional close) for write size in {1,2,3,4,5,7,8,16,32}, read 1..6 writes, capacity read..read+11 writes (incl. capacities that are not a multiple of the read size); same oracle; non-trivial as above",
        ),
    ]);
    #[cfg(not(feature = "shuttle"))]
    {
        v.push(Sub::exhaustive(
            "sender_all_schedules",
            sender_det::sender_dfs_total(false),
            sender_det::sender_dfs_total(true),
            sender_det::sender_dfs,
            "OrderingSender: n single-message writers (n = 0..4, thorough 0..5; for n >= 4 only read size 1 and read size = capacity, for n = 5 capacity <= 2) + closer + stream reader, 2-byte messages, capacity 1..3 messages, read size 1..capacity; a case pins the first 3 polls (all combinations; combinations that do not occur are counted as trivial, label prefix_not_applicable) and explores ALL poll schedules below them by stateless DFS (budget 2e6 / 6e7 schedules per case, label dfs_truncated if hit; labels schedules_log2:k give the sizes); every poll is compared with a poll-level reference model (turn order, capacity, chunk size = read size while open, aligned remainder <= read size after close, bytes = concatenation in index order), the wake-up invariant (a task that can make progress is runnable) is checked after every poll and a state with no runnable task is a lost wake-up; non-trivial = at least one writer",
        ));
        v.push(
            Sub::random(
                "sender_schedules",
                700,
                1_500_000,
                20_000_000,
                sender_det::sender_random,
                "OrderingSender: 0..12 messages of 1,2,3,5,8 bytes spread over <= 6 writer tasks (ascending inside a task) + closer + reader, capacity 1..6 messages, read 1..capacity messages, generated poll schedule (uniform / reader-starved / everyone-arrives-in-descending-order) with optional spurious polls; same oracle; non-trivial = >= 2 messages and at least one writer polled before its turn",
            )
            .shrink_iters(2000),
        );
        v.push(Sub::exhaustive(
            "recv_chunkings_x_orders",
            recv_det::recv_exh_total(false),
            recv_det::recv_exh_total(true),
            recv_det::recv_exhaustive,
            "UnorderedReceiver: every stream length 1..12 x message size 1..8 (<= 6 complete messages) x every chunking (2^(len-1)) x every order of first polls of the requests 0..=m (request m must see end of stream) x capacity {2,3,4}; the quick tier leaves out the one block above 2.5e6 cases (12 bytes of 2-byte messages: 3.1e7 cases), the thorough tier enumerates everything; derived per case (not enumerated): which message is poisoned (deserialisation error) and whether woken requests run eagerly; oracle: recv(i) = i-th message / error on exactly the poisoned index / end of stream on index m, every poll Ready/Pending as the reference predicts, wake-up invariant, no lost wake-up; non-trivial = >= 2 messages and a request polled before its turn",
        ));
        v.push(
            Sub::random(
                "recv_schedules",
                500,
                1_500_000,
                20_000_000,
                recv_det::recv_random,
                "UnorderedReceiver: 0..24 messages of 1..8 bytes (+ optional partial tail, 0..2 poisoned), capacity 2..8, generated chunking (byte-wise, message-wise, single chunk, off-by-one sizes, random incl. empty chunks), chunks arriving between polls at a generated rate, requests first polled in generated order (in order / reversed / permuted), optional spurious polls; same oracle; non-trivial as above",
            )
            .shrink_iters(2000),
        );
    }
    #[cfg(feature = "shuttle")]
    {
        v.push(
            Sub::random(
                "sender_threads_shuttle",
                200,
                12_000,
                100_000,
                shuttle_subs::sender_shuttle,
                "OrderingSender under shuttle (crate::sync = shuttle): 1..8 messages of 1,2,3,5,8 bytes over <= 6 writer threads + closer thread + reader thread, capacity 1..6 messages, read 1..capacity; per case 40 (thorough 200) schedules from a seeded random or PCT (depth 2..4) scheduler; oracle: stream bytes = concatenation in index order, chunks non-empty, aligned, <= read size, full-size before the first short one; shuttle reports a deadlock (lost wake-up) exactly; non-trivial = >= 2 messages on >= 2 writer threads",
            )
            .shrink_iters(60),
        );
        v.push(
            Sub::random(
                "recv_threads_shuttle",
                200,
                12_000,
                100_000,
                shuttle_subs::recv_shuttle,
                "UnorderedReceiver under shuttle: 1..9 messages of 1,2,3,5,8 bytes, capacity 2..4, one thread per request 0..=m spawned in generated order, chunks delivered by a feeder thread; 40 (200) seeded random / PCT schedules per case; oracle: recv(i) = i-th message / deserialisation error on the poisoned index / end of stream on index m, no deadlock; non-trivial = >= 2 messages",
            )
            .shrink_iters(60),
        );
    }
    let _ = env;
    v
}

#[test]
fn run() {
    let env = Env::from_env();
    let s = subs(&env);
    crate::ipa_verif::common::run_main(env, LEVEL, s)
}
