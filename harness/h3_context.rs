// hook module body (h3_context): re-exports / tests that need access to items private to this module's parent.
