// hook module body (h3_context), included as `crate::protocol::context::ipa_verif_h3`.
//
// C16 - a record is released only after its whole batch is validated, with its verdict.
//
// `Batcher` is `pub(super)` in the private module `context::batcher`, so the whole case code of
// C16 lives here; `c16.rs` in the root harness only forwards `LEVEL` and `subs`.
//
// Model of the callers (dzkp_malicious.rs / malicious.rs): every record r first touches its batch
// through `get_batch(r)` (push of proof segments / MAC accumulation), then calls
// `validate_record(r, |batch_index, batch| check)` exactly once under the mutex and awaits the
// returned future outside of it. The check closure here records its invocation and returns a gate
// future whose completion and verdict the harness schedules.

use std::{
    future::Future,
    pin::Pin,
    sync::{Arc, Mutex as StdMutex},
    task::{Context, Poll, Waker},
};

use serde_json::{Value, json};

use super::batcher::Batcher;
use crate::{
    error::Error,
    helpers::TotalRecords,
    ipa_verif::common::{detexec::DetExec, *},
    protocol::RecordId,
    sync::Mutex,
};

pub const LEVEL: &str = "exploration";

/// protocol-defined batch state of the test: the index the constructor was given and what the
/// records pushed
#[derive(Debug, Clone, PartialEq, Eq)]
pub struct TB {
    ctor: usize,
    items: Vec<(usize, u32)>,
}

#[derive(Default)]
struct Log {
    clock: u64,
    verdict: Vec<bool>,
    gate: Vec<bool>,
    gate_waker: Vec<Option<Waker>>,
    invoked: Vec<u32>,
    invoked_at: Vec<u64>,
    invoked_with: Vec<Option<TB>>,
    check_done_at: Vec<Option<u64>>,
    arrived_at: Vec<Option<u64>>,
    resolved: Vec<Option<(u64, bool, String)>>,
    bad_index: Option<usize>,
}

impl Log {
    fn tick(&mut self) -> u64 {
        self.clock += 1;
        self.clock
    }
}

type SharedLog = Arc<StdMutex<Log>>;

struct CheckFut {
    log: SharedLog,
    idx: usize,
}

impl Future for CheckFut {
    type Output = Result<(), Error>;
    fn poll(self: Pin<&mut Self>, cx: &mut Context<'_>) -> Poll<Self::Output> {
        let mut guard = self.log.lock().unwrap();
        let g: &mut Log = &mut guard;
        let i = self.idx;
        if i >= g.gate.len() {
            return Poll::Ready(Ok(()));
        }
        if g.gate[i] {
            let t = g.tick();
            g.check_done_at[i] = Some(t);
            Poll::Ready(if g.verdict[i] { Ok(()) } else { Err(Error::DZKPValidationFailed) })
        } else {
            g.gate_waker[i] = Some(cx.waker().clone());
            Poll::Pending
        }
    }
}

#[derive(Clone, Copy, Debug, PartialEq, Eq, Hash)]
enum Ev {
    /// record r touches its batch (get_batch + push)
    Push(usize),
    /// record r calls validate_record and its wait starts being polled
    Arrive(usize),
    /// the check of batch b is allowed to finish
    Gate(usize),
}

#[derive(Clone, Copy, Debug, PartialEq, Eq, Hash)]
enum Mode {
    /// after every event all waits are polled once in creation order (as a sequential join does,
    /// woken or not), then the woken ones until nothing is runnable
    Sequential,
    /// after every event a generated number of woken waits is polled in a generated order
    Concurrent,
}

struct Sc {
    rpb: usize,
    total: usize,
    events: Vec<Ev>,
    verdict: Vec<bool>,
    mode: Mode,
    /// the total is declared after construction (set_total_records) instead of in `new`
    late_total: bool,
}

impl Sc {
    fn nb(&self) -> usize {
        self.total.div_ceil(self.rpb)
    }
    fn json(&self) -> Value {
        json!({
            "records_per_batch": self.rpb, "total": self.total, "mode": format!("{:?}", self.mode), "late_total": self.late_total,
            "failing_batches": self.verdict.iter().enumerate().filter(|(_, v)| !**v).map(|(i, _)| i).collect::<Vec<_>>(),
            "events": self.events.iter().map(|e| match e { Ev::Push(r) => format!("push{r}"), Ev::Arrive(r) => format!("validate{r}"), Ev::Gate(b) => format!("finish_check{b}") }).collect::<Vec<_>>(),
        })
    }
}

struct Rig {
    batcher: Mutex<Batcher<'static, TB>>,
    log: SharedLog,
    exec: DetExec<'static>,
    /// model: pushes per batch in push order
    pushes: Vec<Vec<(usize, u32)>>,
    seq: u32,
    rpb: usize,
    /// task id of the wait of record r
    task_of: Vec<Option<usize>>,
}

impl Rig {
    fn new(sc: &Sc) -> Self {
        let nb = sc.nb();
        let log = Arc::new(StdMutex::new(Log {
            verdict: sc.verdict.clone(),
            gate: vec![false; nb],
            gate_waker: vec![None; nb],
            invoked: vec![0; nb],
            invoked_at: vec![0; nb],
            invoked_with: vec![None; nb],
            check_done_at: vec![None; nb],
            arrived_at: vec![None; sc.total],
            resolved: vec![None; sc.total],
            ..Log::default()
        }));
        let ctor: Box<dyn Fn(usize) -> TB + Send + 'static> = Box::new(|idx| TB { ctor: idx, items: vec![] });
        let batcher = if sc.late_total {
            let b = Batcher::new(sc.rpb, TotalRecords::Unspecified, ctor);
            b.lock().unwrap().set_total_records(TotalRecords::specified(sc.total).unwrap());
            b
        } else {
            Batcher::new(sc.rpb, TotalRecords::specified(sc.total).unwrap(), ctor)
        };
        Self { batcher, log, exec: DetExec::new(), pushes: vec![vec![]; nb], seq: 0, rpb: sc.rpb, task_of: vec![None; sc.total] }
    }

    fn push(&mut self, r: usize) {
        self.seq += 1;
        let item = (r, self.seq);
        self.batcher.lock().unwrap().get_batch(RecordId::from(r)).batch.items.push(item);
        self.pushes[r / self.rpb].push(item);
    }

    /// validate_record(r) with the recording closure; returns the wait future
    fn request(&self, r: usize) -> impl Future<Output = Result<(), Error>> + use<> {
        let log = Arc::clone(&self.log);
        self.batcher.lock().unwrap().validate_record(RecordId::from(r), move |idx, b: TB| {
            {
                let mut guard = log.lock().unwrap();
                let g: &mut Log = &mut guard;
                let t = g.tick();
                if idx < g.invoked.len() {
                    g.invoked[idx] += 1;
                    g.invoked_at[idx] = t;
                    g.invoked_with[idx] = Some(b);
                } else {
                    g.bad_index = Some(idx);
                }
            }
            CheckFut { log, idx }
        })
    }

    fn arrive(&mut self, r: usize) {
        {
            let mut g = self.log.lock().unwrap();
            let t = g.tick();
            g.arrived_at[r] = Some(t);
        }
        let fut = self.request(r);
        let log = Arc::clone(&self.log);
        let id = self.exec.spawn(async move {
            let res = fut.await;
            let mut g = log.lock().unwrap();
            let t = g.tick();
            g.resolved[r] = Some((t, res.is_ok(), format!("{res:?}")));
        });
        self.task_of[r] = Some(id);
    }

    fn gate(&mut self, b: usize) {
        let w = {
            let mut g = self.log.lock().unwrap();
            g.tick();
            g.gate[b] = true;
            g.gate_waker[b].take()
        };
        if let Some(w) = w {
            w.wake();
        }
    }

    fn apply(&mut self, e: Ev) {
        match e {
            Ev::Push(r) => self.push(r),
            Ev::Arrive(r) => self.arrive(r),
            Ev::Gate(b) => self.gate(b),
        }
    }

    fn poll_after_event(&mut self, mode: Mode, sched: &mut Src<'_>) {
        match mode {
            Mode::Sequential => {
                for id in 0..self.exec.len() {
                    if !self.exec.is_done(id) {
                        self.exec.poll(id);
                    }
                }
                while self.exec.step_runnable(|_| 0).is_some() {}
            }
            Mode::Concurrent => {
                let k = sched.below(4);
                for _ in 0..k {
                    if self.exec.step_runnable(|n| sched.idx(n)).is_none() {
                        break;
                    }
                }
            }
        }
    }

    /// run until nothing is runnable; true if every wait finished
    fn quiesce(&mut self, sched: &mut Src<'_>) -> bool {
        self.exec.run(|n| sched.idx(n), 100_000).is_ok()
    }
}

fn batch_size(sc: &Sc, b: usize) -> usize {
    sc.rpb.min(sc.total - b * sc.rpb)
}

/// oracle over the recorded history of a complete valid scenario
fn judge(env: &Env, sc: &Sc, rig: &Rig, all_done: bool) -> Result<(), CaseErr> {
    let g = rig.log.lock().unwrap();
    let case = || json!({"scenario": sc.json(), "closure_invocations": g.invoked, "resolved": g.resolved.iter().map(|r| r.as_ref().map(|(t, ok, e)| json!([t, ok, e]))).collect::<Vec<_>>()});
    if let Some(i) = g.bad_index {
        known_or_violation(env, "batch-index-out-of-range", format!("check closure invoked for batch {i}, but there are only {} batches", sc.nb()), case())?;
    }
    for b in 0..sc.nb() {
        let recs: Vec<usize> = (b * sc.rpb..b * sc.rpb + batch_size(sc, b)).collect();
        if g.invoked[b] != 1 {
            known_or_violation(env, "check-count", format!("the check of batch {b} (records {recs:?}) ran {} times instead of exactly once", g.invoked[b]), case())?;
            continue;
        }
        let last_arrival = recs.iter().map(|r| g.arrived_at[*r].unwrap_or(u64::MAX)).max().unwrap();
        if g.invoked_at[b] < last_arrival {
            known_or_violation(env, "check-before-batch-full", format!("the check of batch {b} started before all of its records {recs:?} had requested validation"), case())?;
        }
        let want = TB { ctor: b, items: rig.pushes[b].clone() };
        if g.invoked_with[b].as_ref() != Some(&want) {
            known_or_violation(env, "batch-content", format!("the check of batch {b} received {:?}, expected {want:?}", g.invoked_with[b]), case())?;
        }
    }
    for r in 0..sc.total {
        let b = r / sc.rpb;
        match &g.resolved[r] {
            None => {
                if all_done {
                    continue;
                }
                known_or_violation(env, "wait-never-completes", format!("record {r}: all records requested validation and all checks finished, but its wait did not complete"), case())?;
            }
            Some((t, ok, err)) => {
                match g.check_done_at[b] {
                    Some(done) if done < *t => {}
                    _ => known_or_violation(env, "released-before-check", format!("record {r} was released at t={t} but the check of its batch {b} finished at {:?}", g.check_done_at[b]), case())?,
                }
                if *ok != sc.verdict[b] {
                    known_or_violation(env, "wrong-verdict", format!("record {r}: wait returned {err} but the check of batch {b} returned {}", if sc.verdict[b] { "Ok" } else { "Err" }), case())?;
                }
            }
        }
    }
    Ok(())
}

/// run a complete valid scenario and judge it
fn run_valid(env: &Env, sc: &Sc, sched: &mut Src<'_>) -> Result<Vec<String>, CaseErr> {
    let mut rig = Rig::new(sc);
    let mut early_release: Option<usize> = None;
    for e in &sc.events {
        rig.apply(*e);
        rig.poll_after_event(sc.mode, sched);
        // a wait must never be over while a record of its batch has not asked yet
        let g = rig.log.lock().unwrap();
        for r in 0..sc.total {
            if g.resolved[r].is_some() && early_release.is_none() {
                let b = r / sc.rpb;
                let full = (b * sc.rpb..b * sc.rpb + batch_size(sc, b)).all(|x| g.arrived_at[x].is_some());
                if !full {
                    early_release = Some(r);
                }
            }
        }
    }
    if let Some(r) = early_release {
        known_or_violation(env, "released-before-batch-full", format!("record {r} was released before every record of its batch had requested validation"), json!({"scenario": sc.json()}))?;
    }
    let all_done = rig.quiesce(sched);
    judge(env, sc, &rig, false)?;
    let _ = all_done;
    let mut labels = vec![format!("mode:{:?}", sc.mode), format!("rpb={}", sc.rpb)];
    if sc.total % sc.rpb != 0 {
        labels.push("partial-last-batch".into());
    }
    if sc.verdict.iter().any(|v| !*v) {
        labels.push("failing-batch".into());
    }
    if sc.verdict.iter().any(|v| !*v) && sc.verdict.iter().any(|v| *v) {
        labels.push("mixed-verdicts".into());
    }
    {
        let g = rig.log.lock().unwrap();
        // batches closed (check invoked) out of index order / finished out of index order
        let mut by_invocation: Vec<(u64, usize)> = (0..sc.nb()).map(|b| (g.invoked_at[b], b)).collect();
        by_invocation.sort_unstable();
        if by_invocation.windows(2).any(|w| w[0].1 > w[1].1) {
            labels.push("batches-close-out-of-order".into());
        }
        let mut by_done: Vec<(u64, usize)> = (0..sc.nb()).map(|b| (g.check_done_at[b].unwrap_or(0), b)).collect();
        by_done.sort_unstable();
        if by_done.windows(2).any(|w| w[0].1 > w[1].1) {
            labels.push("checks-finish-out-of-order".into());
        }
        let arrivals: Vec<usize> = sc.events.iter().filter_map(|e| if let Ev::Arrive(r) = e { Some(*r) } else { None }).collect();
        if arrivals.windows(2).any(|w| w[0] > w[1]) {
            labels.push("records-arrive-out-of-order".into());
        }
    }
    if sc.late_total {
        labels.push("total-declared-late".into());
    }
    let empty = rig.batcher.lock().unwrap().is_empty();
    labels.push(if empty { "batcher-empty-at-end".into() } else { "batcher-not-empty-at-end".into() });
    Ok(labels)
}

// ------------------------------------------------------------------------------------------
// exhaustive: all arrival permutations of n <= 7 records
// ------------------------------------------------------------------------------------------

const FACT: [u64; 8] = [1, 1, 2, 6, 24, 120, 720, 5040];

fn nth_perm(n: usize, mut k: u64) -> Vec<usize> {
    let mut items: Vec<usize> = (0..n).collect();
    let mut out = vec![];
    for i in (0..n).rev() {
        let f = FACT[i];
        out.push(items.remove((k / f) as usize));
        k %= f;
    }
    out
}

/// failing-batch subsets used for `nb` batches: all of them when there are at most 16 (or in the
/// thorough tier), otherwise a fixed representative selection
fn masks(nb: usize, thorough: bool) -> Vec<u32> {
    let full = (1u32 << nb) - 1;
    if nb <= 4 || thorough {
        return (0..=full).collect();
    }
    let mut v = vec![0, full, 0x55 & full, 0xAA & full];
    for i in 0..nb {
        v.push(1 << i);
    }
    v.push(full ^ 1);
    v.push(full ^ (1 << (nb - 1)));
    v.push(0b0110 & full);
    v.sort_unstable();
    v.dedup();
    v
}

const VARIANTS: u64 = 16; // mode (2) x gate pattern (4) x push pattern (2)

fn group_count(rpb: usize, n: usize, thorough: bool) -> u64 {
    FACT[n] * masks(n.div_ceil(rpb), thorough).len() as u64 * VARIANTS
}

fn perms_total(thorough: bool) -> u64 {
    let mut t = 0;
    for rpb in 1..=4 {
        for n in 1..=7 {
            t += group_count(rpb, n, thorough);
        }
    }
    t
}

fn index(src: &mut Src<'_>) -> u64 {
    let lo = u64::from(src.raw());
    let hi = u64::from(src.raw());
    lo | (hi << 32)
}

/// deterministic pseudo-random choices for the poll schedule of an enumerated case
fn derived_choices(seed: u64, n: usize) -> Vec<u32> {
    let mut s = seed.wrapping_mul(0x9E37_79B9_7F4A_7C15) | 1;
    (0..n)
        .map(|_| {
            s ^= s << 13;
            s ^= s >> 7;
            s ^= s << 17;
            (s >> 16) as u32
        })
        .collect()
}

fn all_arrival_orders(env: &Env, src: &mut Src<'_>) -> CaseResult {
    let i0 = index(src);
    let mut i = i0;
    let thorough = env.thorough();
    let (mut rpb, mut n) = (1usize, 1usize);
    'find: for r in 1..=4 {
        for m in 1..=7 {
            let c = group_count(r, m, thorough);
            if i < c {
                rpb = r;
                n = m;
                break 'find;
            }
            i -= c;
        }
    }
    let variant = i % VARIANTS;
    i /= VARIANTS;
    let nb = n.div_ceil(rpb);
    let ms = masks(nb, thorough);
    let failmask = ms[(i % ms.len() as u64) as usize];
    i /= ms.len() as u64;
    let perm = nth_perm(n, i);
    let mode = if variant & 1 == 0 { Mode::Sequential } else { Mode::Concurrent };
    let gate_pattern = (variant >> 1) & 3;
    let push_pattern = (variant >> 3) & 1;
    let verdict: Vec<bool> = (0..nb).map(|b| (failmask >> b) & 1 == 0).collect();
    let mut events = vec![];
    if gate_pattern == 1 {
        events.extend((0..nb).map(Ev::Gate));
    }
    if push_pattern == 1 {
        for r in 0..n {
            events.push(Ev::Push(r));
            events.push(Ev::Push(r));
        }
    }
    let mut arrived = vec![0usize; nb];
    for &r in &perm {
        if push_pattern == 0 {
            events.push(Ev::Push(r));
        }
        events.push(Ev::Arrive(r));
        let b = r / rpb;
        arrived[b] += 1;
        if gate_pattern == 0 && arrived[b] == rpb.min(n - b * rpb) {
            events.push(Ev::Gate(b));
        }
    }
    match gate_pattern {
        2 => events.extend((0..nb).map(Ev::Gate)),
        3 => events.extend((0..nb).rev().map(Ev::Gate)),
        _ => {}
    }
    let sc = Sc { rpb, total: n, events, verdict, mode, late_total: false };
    let choices = derived_choices(i0, 160);
    let mut sched = Src::new(&choices);
    let labels = run_valid(env, &sc, &mut sched)?;
    Ok(CaseOk::new(n >= 2, &(rpb, n, &perm, failmask, variant), sc.json()).labels(labels))
}

// ------------------------------------------------------------------------------------------
// random valid scenarios
// ------------------------------------------------------------------------------------------

fn gen_scenario(src: &mut Src<'_>) -> Sc {
    let rpb = match src.below(8) {
        0..=5 => src.urange(1, 4),
        _ => src.urange(5, 8),
    };
    let total = match src.below(4) {
        0 => src.urange(1, 7),
        1 | 2 => src.urange(1, 16),
        _ => src.urange(1, 30),
    };
    let nb = total.div_ceil(rpb);
    let verdict: Vec<bool> = match src.below(4) {
        0 => vec![true; nb],
        1 => vec![false; nb],
        _ => (0..nb).map(|_| src.chance(2, 3)).collect(),
    };
    // arrival order: identity, reverse, locally shuffled (as a window of concurrent records does),
    // or any permutation
    let perm: Vec<usize> = match src.below(5) {
        0 => (0..total).collect(),
        1 => (0..total).rev().collect(),
        2 | 3 => {
            let mut p: Vec<usize> = (0..total).collect();
            let win = src.urange(2, 6);
            for i in 0..total {
                let j = (i + src.idx(win)).min(total - 1);
                p.swap(i, j);
            }
            p
        }
        _ => src.perm(total),
    };
    // pushes happen at any time before the record's own request
    let mut events: Vec<Ev> = vec![];
    for &r in &perm {
        let k = src.below(3);
        for _ in 0..k {
            // insert the push somewhere before the end (any position is before the arrival)
            let pos = src.idx(events.len() + 1);
            events.insert(pos, Ev::Push(r));
        }
        events.push(Ev::Arrive(r));
    }
    // finishing the checks: any time
    let gate_order = if src.bool() { (0..nb).collect::<Vec<_>>() } else { src.perm(nb) };
    let gate_when = src.below(3);
    for b in gate_order {
        let pos = match gate_when {
            0 => events.len(),
            1 => src.idx(events.len() + 1),
            _ => {
                // right after the batch closes
                let last = (b * rpb..(b * rpb + rpb).min(total)).map(|r| events.iter().position(|e| *e == Ev::Arrive(r)).unwrap()).max().unwrap();
                last + 1
            }
        };
        events.insert(pos, Ev::Gate(b));
    }
    let mode = if src.bool() { Mode::Concurrent } else { Mode::Sequential };
    Sc { rpb, total, events, verdict, mode, late_total: src.chance(1, 4) }
}

fn random_histories(env: &Env, src: &mut Src<'_>) -> CaseResult {
    let sc = gen_scenario(src);
    let labels = run_valid(env, &sc, src)?;
    Ok(CaseOk::new(sc.total >= 2, &sc.json().to_string(), sc.json()).labels(labels))
}

// ------------------------------------------------------------------------------------------
// misuse: must be rejected loudly
// ------------------------------------------------------------------------------------------

fn misuse(env: &Env, src: &mut Src<'_>) -> CaseResult {
    let sc = gen_scenario(src);
    let cut = src.idx(sc.events.len() + 1);
    let mut rig = Rig::new(&sc);
    for e in &sc.events[..cut] {
        rig.apply(*e);
        rig.poll_after_event(sc.mode, src);
    }
    if src.bool() {
        rig.quiesce(src);
    }
    // classify the records
    let (arrived, closed, checked): (Vec<bool>, Vec<bool>, Vec<bool>) = {
        let g = rig.log.lock().unwrap();
        let arrived: Vec<bool> = (0..sc.total).map(|r| g.arrived_at[r].is_some()).collect();
        let closed: Vec<bool> = (0..sc.nb()).map(|b| (b * sc.rpb..b * sc.rpb + batch_size(&sc, b)).all(|r| arrived[r])).collect();
        let checked: Vec<bool> = (0..sc.nb()).map(|b| g.check_done_at[b].is_some()).collect();
        (arrived, closed, checked)
    };
    let twice_open: Vec<usize> = (0..sc.total).filter(|&r| arrived[r] && !closed[r / sc.rpb]).collect();
    let twice_closed: Vec<usize> = (0..sc.total).filter(|&r| closed[r / sc.rpb]).collect();
    let touch: Vec<usize> = (0..sc.total).filter(|&r| checked[r / sc.rpb]).collect();
    let mut kinds: Vec<&'static str> = vec!["beyond-total"];
    if !twice_open.is_empty() {
        kinds.push("twice-in-open-batch");
    }
    if !twice_closed.is_empty() {
        kinds.push("twice-in-closed-batch");
    }
    if !touch.is_empty() {
        kinds.push("touch-validated-batch");
        kinds.push("touch-validated-batch");
    }
    let kind = src.pick(&kinds);
    let target = match kind {
        "beyond-total" => sc.total + src.idx(2 * sc.rpb + 3),
        "twice-in-open-batch" => src.pick(&twice_open),
        "twice-in-closed-batch" => src.pick(&twice_closed),
        _ => src.pick(&touch),
    };
    let case = json!({"scenario": sc.json(), "events_applied": cut, "misuse": kind, "record": target});
    let outcome: String;
    if kind == "touch-validated-batch" {
        let r = catch(|| {
            let mut b = rig.batcher.lock().unwrap();
            let st = b.get_batch(RecordId::from(target));
            st.batch.items.len()
        });
        match r {
            Err(_) => outcome = "panic".into(),
            Ok(len) => {
                known_or_violation(env, "misuse-accepted:touch-validated-batch", format!("get_batch({target}) after batch {} had been validated returned a batch with {len} items instead of rejecting the access", target / sc.rpb), case.clone())?;
                outcome = "accepted".into();
            }
        }
    } else {
        let r = catch(|| rig.request(target));
        match r {
            Err(_) => outcome = "panic".into(),
            Ok(fut) => {
                // the rejection may surface when the wait is polled
                let slot: Arc<StdMutex<Option<Result<(), String>>>> = Arc::new(StdMutex::new(None));
                let s2 = Arc::clone(&slot);
                let id = rig.exec.spawn(async move {
                    let res = fut.await;
                    *s2.lock().unwrap() = Some(res.map_err(|e| format!("{e:?}")));
                });
                let polled = catch(|| {
                    rig.exec.poll(id);
                });
                let mut res = slot.lock().unwrap().clone();
                if polled.is_ok() && res.is_none() {
                    // still waiting: let everything else finish (panics of the now inconsistent
                    // batcher are loud rejections as well)
                    let rest = catch(|| {
                        for e in &sc.events[cut..] {
                            rig.apply(*e);
                        }
                        for b in 0..sc.nb() {
                            rig.gate(b);
                        }
                        let zeros: [u32; 0] = [];
                        let mut z = Src::new(&zeros);
                        rig.quiesce(&mut z);
                    });
                    res = slot.lock().unwrap().clone();
                    if rest.is_err() && res.is_none() {
                        res = Some(Err("panic later".into()));
                    }
                }
                match (polled, res) {
                    (Err(_), _) => outcome = "panic-on-poll".into(),
                    (_, Some(Err(_))) => outcome = "error".into(),
                    (_, Some(Ok(()))) => {
                        known_or_violation(env, &format!("misuse-accepted:{kind}"), format!("validate_record({target}) ({kind}) completed with Ok(())"), case.clone())?;
                        outcome = "accepted".into();
                    }
                    (_, None) => {
                        // neither an error nor a panic: every other record asked, every check finished,
                        // and this wait is still pending - the misuse was not rejected
                        known_or_violation(env, &format!("misuse-not-rejected:{kind}"), format!("validate_record({target}) ({kind}) neither panicked nor returned an error; its wait never completes"), case.clone())?;
                        outcome = "never-completes".into();
                    }
                }
            }
        }
    }
    // the rig may hold a poisoned mutex and half-finished waits: drop it without running anything
    let _ = catch(move || drop(rig));
    Ok(CaseOk::new(true, &(sc.json().to_string(), cut, kind, target), case).label(format!("misuse:{kind}")).label(format!("{kind}->{outcome}")))
}

pub fn subs(env: &Env) -> Vec<Sub> {
    let t = perms_total(env.thorough());
    vec![
        Sub::exhaustive("all_arrival_orders", t, t, all_arrival_orders,
            "records-per-batch 1..4 x totals n=1..7 (incl. non-multiples) x all n! orders in which the records request validation x failing-batch subsets (all 2^b for b<=4 batches; 14-16 representative subsets for 5..7 batches in the quick tier, all in the thorough tier) x {sequential round-robin polling incl. unwoken waits, concurrent polling with a derived schedule} x check completion {right after the batch closes, allowed before any record arrives, after all arrivals ascending, after all arrivals descending} x pushes {before each request, all up front}; oracle over the recorded history: each check exactly once, after its batch is full, with the pushed content; each wait ends after its batch's check with that verdict; non-trivial = n>=2"),
        Sub::random("random_histories", 400, 600_000, 8_000_000, random_histories,
            "records-per-batch 1..8, totals 1..30, arrival order identity / reverse / windowed shuffle / any permutation, 0..2 pushes per record at any earlier time, checks finishing in any order at any time, total declared at construction or later, sequential or concurrent polling with a generated schedule; same oracle; non-trivial = n>=2"),
        Sub::random("misuse", 400, 400_000, 4_000_000, misuse,
            "a generated prefix of a valid history, then one misuse: validate_record for a record that already asked (batch still open / batch closed), for a record at or beyond the declared total, or get_batch for a record of a batch whose check has finished; the call must panic or its wait must end with Err - never with Ok, never pending for ever, never handing out the batch"),
    ]
}
