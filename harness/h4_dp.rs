// hook module body (h4_dp): lives in `crate::protocol::dp::ipa_verif_h4`.
// Thin `pub(crate)` wrappers around items that are private to `protocol::dp`, for the root
// harness (property C12). No logic here: every method forwards to the item under test.

use rand_core::{CryptoRng, RngCore};

use super::{NoiseParams, ShiftedTruncatedDiscreteLaplace};
use crate::{
    error::Error,
    ff::{U128Conversions, boolean_array::BooleanArray},
    helpers::Direction,
    secret_sharing::replicated::semi_honest::AdditiveShare as Replicated,
};

/// `ShiftedTruncatedDiscreteLaplace` is a private struct of `protocol::dp` (it cannot be
/// re-exported), so the harness reaches it through this newtype.
pub(crate) struct Stdl(ShiftedTruncatedDiscreteLaplace);

#[allow(dead_code)]
impl Stdl {
    /// `ShiftedTruncatedDiscreteLaplace::new` (asserts `bit_size <= 32`)
    pub(crate) fn new(noise_params: &NoiseParams, bit_size: u32) -> Result<Self, Error> {
        ShiftedTruncatedDiscreteLaplace::new(noise_params, bit_size).map(Self)
    }

    /// the private field `shift` (= truncation point n used to re-centre the sample)
    pub(crate) fn shift(&self) -> u32 {
        self.0.shift
    }

    /// the private field `modulus`
    pub(crate) fn modulus(&self) -> u64 {
        #[allow(clippy::useless_conversion)]
        u64::from(self.0.modulus) // compiles whether the field is u32 or u64
    }

    /// truncation point of the wrapped distribution
    pub(crate) fn inner_shift(&self) -> u32 {
        self.0.truncated_discrete_laplace.get_shift()
    }

    /// the private `sample` (un-centred draw in 0..=2n)
    pub(crate) fn sample<R: RngCore + CryptoRng>(&self, rng: &mut R) -> u32 {
        self.0.sample(rng)
    }

    /// `sample_shares`
    pub(crate) fn sample_shares<R, OV>(&self, rng: &mut R, direction_to_excluded_helper: Direction) -> Replicated<OV>
    where
        R: RngCore + CryptoRng,
        OV: BooleanArray + U128Conversions,
    {
        self.0.sample_shares(rng, direction_to_excluded_helper)
    }
}
