// hook module body (h4_dp): re-exports / tests that need access to items private to this module's parent.
