// H5: hook body inside `crate::query::runner` (a private module, so C11 has its own libtest entry
// here). The body needs the tokio-based MPC world runner; it is not built under shuttle or
// compact gates.
#[cfg(all(not(feature = "shuttle"), descriptive_gate))]
include!(concat!(env!("IPA_VERIF_DIR"), "/h5_runner_body.rs"));

// C19 drives `reshard_aad` from the crate root (through hook H8, which re-exports this module
// from `crate::query`).
#[allow(unused_imports)]
pub(crate) use super::reshard_tag::reshard_aad;
