// H5: hook body inside `crate::query::runner` (a private module, so C11 has its own libtest entry
// here). The body needs the tokio-based MPC world runner; it is not built under shuttle or
// compact gates.
#[cfg(all(not(feature = "shuttle"), descriptive_gate))]
include!(concat!(env!("IPA_VERIF_DIR"), "/h5_runner_body.rs"));
