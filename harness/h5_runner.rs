// hook module body (h5_runner): re-exports / tests that need access to items private to this module's parent.
