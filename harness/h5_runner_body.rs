// hook module body (h5_runner): lives in `crate::query::runner::ipa_verif_h5`, has access to the
// private `query::runner::{hybrid, reshard_tag}` modules and its own libtest entry point.
//
// C11 - a report submitted twice in one query is rejected wherever the copies land.
//
// The helpers' inputs are real length-delimited, HPKE-encrypted hybrid reports (one ciphertext per
// helper and report, as a report collector submits them); a duplicate is the *same bytes* placed a
// second (third) time into a generated shard's input at a generated position, consistently on the
// three helpers. Three sub-checks:
//   * `uniqueness_path`  - the exact decrypt -> `reshard_aad` -> `UniqueTagValidator` sequence of
//     `Query::execute` (hybrid.rs lines "let stream = LengthDelimitedStream..." to
//     "unique_encrypted_hybrid_reports.check_duplicates(&resharded_tags)?"), cut after the
//     uniqueness check; every helper-shard finishes, so the oracle is an exact "iff":
//     helper h / shard d returns Err(DuplicateBytes) iff two copies of one of h's ciphertexts are
//     routed (by `UniqueTag::shard_picker`) to d.
//   * `query_duplicates` - the whole `Query::execute` on every helper-shard with >= 1 duplicate
//     set: on every helper the routed shard returns Err(DuplicateBytes), it has not sent a single
//     MPC message (attribution has not started there), and no helper-shard returns Ok.
//   * `query_execute_honest` - the whole query on pairwise distinct reports: no DuplicateBytes,
//     every helper-shard returns Ok and the leader's histogram equals the plaintext attribution.

use std::{
    collections::{BTreeMap, BTreeSet, VecDeque},
    panic::AssertUnwindSafe,
    pin::Pin,
    sync::{Arc, Mutex},
    task::{Context as TaskCx, Poll},
    time::Duration,
};

use bytes::Bytes;
use futures::{FutureExt, Stream, StreamExt, TryStreamExt, stream::FuturesUnordered};
use generic_array::GenericArray;
use rand::{SeedableRng, rngs::StdRng};
use serde_json::{Value, json};

use super::hybrid::Query as HybridQuery;
use crate::{
    error::{BoxError, Error},
    ff::{
        Serializable, U128Conversions,
        boolean_array::{BA3, BA8, BA32},
    },
    helpers::{
        BodyStream, HelperIdentity, LengthDelimitedStream,
        in_memory_config::{DynStreamInterceptor, InspectContext},
        query::{HybridQueryParams, QuerySize},
        stream::TryFlattenItersExt,
    },
    hpke::{KeyPair, KeyRegistry},
    ipa_verif::{
        common::*,
        mpc::{Row, RowKind, reconstruct3, reference_histogram},
    },
    protocol::{
        context::{Context, ShardedContext},
        hybrid::step::HybridStep,
        step::ProtocolStep::Hybrid,
    },
    report::hybrid::{DEFAULT_KEY_ID, EncryptedHybridReport, HybridReport, UniqueBytes, UniqueTag, UniqueTagValidator},
    secret_sharing::{
        IntoShares,
        replicated::{ReplicatedSecretSharing, semi_honest::AdditiveShare as Replicated},
    },
    seq_join::seq_join,
    sharding::{ShardConfiguration, ShardIndex},
    test_fixture::{TestWorld, TestWorldConfig, WithShards, hybrid::TestHybridRecord},
};

pub const LEVEL: &str = "exploration";

type Tag = [u8; 16];

// ------------------------------------------------------------------------------------------
// case description
// ------------------------------------------------------------------------------------------

#[derive(Clone, Copy, Debug, PartialEq, Eq)]
enum Path {
    /// decrypt -> reshard_aad -> check_duplicates only
    Uniqueness,
    /// the whole `Query::execute`
    Query,
}

#[derive(Clone, Debug)]
struct Case {
    shards: usize,
    rows: Vec<Row>,
    /// layout[s] = report indices in the order they appear in shard s's input (a report index that
    /// occurs more than once over all shards is a duplicate set)
    layout: Vec<Vec<usize>>,
    query_sizes: Vec<usize>,
    workers: usize,
    active: u32,
    /// [helper][shard]: (chunk size in bytes, 0 = one chunk; Pending pattern between chunks)
    chunking: Vec<Vec<(usize, Vec<u8>)>>,
    world_seed: u64,
    enc_seed: u64,
    timeout: Duration,
}

impl Case {
    fn json(&self) -> Value {
        json!({
            "shards": self.shards, "n_reports": self.rows.len(), "layout": self.layout, "query_sizes": self.query_sizes,
            "workers": self.workers, "active": self.active, "world_seed": self.world_seed.to_string(), "enc_seed": self.enc_seed.to_string(),
            "chunking": self.chunking.iter().map(|per| per.iter().map(|(c, d)| json!([c, d])).collect::<Vec<_>>()).collect::<Vec<_>>(),
            "rows": self.rows.iter().take(64).map(Row::json).collect::<Vec<_>>(),
        })
    }
    /// report index -> number of copies over all shards
    fn copies(&self) -> BTreeMap<usize, usize> {
        let mut m = BTreeMap::new();
        for r in self.layout.iter().flatten() {
            *m.entry(*r).or_default() += 1;
        }
        m
    }
    fn dup_reports(&self) -> Vec<usize> {
        self.copies().into_iter().filter(|(_, c)| *c >= 2).map(|(r, _)| r).collect()
    }
}

fn to_record(r: &Row) -> TestHybridRecord {
    match r.kind {
        RowKind::Impression => TestHybridRecord::TestImpression { match_key: r.mk, breakdown_key: u32::from(r.bk()), key_id: DEFAULT_KEY_ID },
        RowKind::Conversion => TestHybridRecord::TestConversion {
            match_key: r.mk,
            value: u32::from(r.value()),
            key_id: DEFAULT_KEY_ID,
            conversion_site_domain: "meta.com".to_string(),
            timestamp: 100 + (r.mk & 0xffff),
            epsilon: 0.0,
            sensitivity: 0.0,
        },
    }
}

struct Encrypted {
    registry: Arc<KeyRegistry<KeyPair>>,
    /// [helper][report] = length-delimited encrypted report
    bytes: Vec<Vec<Vec<u8>>>,
    /// [helper][report] = the 16 bytes the helper uses as the uniqueness tag
    tags: Vec<Vec<Tag>>,
    /// [helper][report] = shard `UniqueTag::shard_picker` routes the tag to
    routed: Vec<Vec<usize>>,
    /// number of distinct reports whose tag equals the tag of another distinct report (expected 0)
    tag_collisions: usize,
}

/// Encrypt every report once per helper.
fn encrypt(case: &Case) -> Result<Encrypted, String> {
    let mut rng = StdRng::seed_from_u64(case.enc_seed);
    let registry = Arc::new(KeyRegistry::<KeyPair>::random(1, &mut rng));
    let mut bytes: Vec<Vec<Vec<u8>>> = vec![vec![]; 3];
    let mut tags: Vec<Vec<Tag>> = vec![vec![]; 3];
    let mut routed: Vec<Vec<usize>> = vec![vec![]; 3];
    for row in &case.rows {
        let shares: [HybridReport<BA8, BA3>; 3] = to_record(row).share_with(&mut rng);
        for (h, share) in shares.into_iter().enumerate() {
            let mut buf: Vec<u8> = Vec::new();
            share.delimited_encrypt_to(DEFAULT_KEY_ID, registry.as_ref(), &mut rng, &mut buf).map_err(|e| format!("encryption failed: {e}"))?;
            // what the helper will see: the record without its 2-byte length prefix
            let enc = EncryptedHybridReport::<BA8, BA3>::from_bytes(Bytes::copy_from_slice(&buf[2..])).map_err(|e| format!("own ciphertext does not parse: {e}"))?;
            let tag = UniqueTag::from_unique_bytes(&enc);
            routed[h].push(usize::from(tag.shard_picker(ShardIndex::from(case.shards as u32))));
            tags[h].push(tag.unique_bytes());
            bytes[h].push(buf);
        }
    }
    // HPKE randomness makes the ciphertexts - and with them the 16 tag bytes - of distinct reports
    // distinct; this is counted, not assumed: a collision does not discard the case (pairwise
    // distinct reports must still not be rejected), it is reported in the class distribution
    let mut collisions = 0;
    for h in 0..3 {
        let distinct: BTreeSet<&Tag> = tags[h].iter().collect();
        collisions += tags[h].len() - distinct.len();
        let distinct_bytes: BTreeSet<&Vec<u8>> = bytes[h].iter().collect();
        if distinct_bytes.len() != bytes[h].len() {
            return Err(format!("helper {h}: two separately encrypted reports are byte-identical"));
        }
    }
    Ok(Encrypted { registry, bytes, tags, routed, tag_collisions: collisions })
}

// ------------------------------------------------------------------------------------------
// input body with generated chunking / timing
// ------------------------------------------------------------------------------------------

struct ChunkStream {
    chunks: VecDeque<Bytes>,
    delays: Vec<u8>,
    k: usize,
    wait: u8,
    armed: bool,
}

impl Stream for ChunkStream {
    type Item = Result<Bytes, BoxError>;
    fn poll_next(self: Pin<&mut Self>, cx: &mut TaskCx<'_>) -> Poll<Option<Self::Item>> {
        let this = self.get_mut();
        if !this.armed {
            this.armed = true;
            this.wait = if this.delays.is_empty() { 0 } else { this.delays[this.k % this.delays.len()] };
        }
        if this.wait > 0 {
            this.wait -= 1;
            cx.waker().wake_by_ref();
            return Poll::Pending;
        }
        this.armed = false;
        this.k += 1;
        Poll::Ready(this.chunks.pop_front().map(Ok))
    }
}

fn body(buf: Vec<u8>, chunk: usize, delays: &[u8]) -> BodyStream {
    if chunk == 0 && delays.is_empty() {
        return BodyStream::from(buf);
    }
    let all = Bytes::from(buf);
    let size = if chunk == 0 { all.len().max(1) } else { chunk };
    let mut chunks = VecDeque::new();
    let mut at = 0;
    while at < all.len() {
        let end = (at + size).min(all.len());
        chunks.push_back(all.slice(at..end));
        at = end;
    }
    BodyStream::from_bytes_stream(ChunkStream { chunks, delays: delays.to_vec(), k: 0, wait: 0, armed: false })
}

// ------------------------------------------------------------------------------------------
// interceptor + driver
// ------------------------------------------------------------------------------------------

#[derive(Default)]
struct Net {
    /// (sending helper, shard) -> gates of the first MPC chunks it sent
    mpc_sent: BTreeMap<(usize, usize), Vec<String>>,
    shard_msgs: usize,
}

fn helper_index(h: HelperIdentity) -> usize {
    if h == HelperIdentity::ONE {
        0
    } else if h == HelperIdentity::TWO {
        1
    } else {
        2
    }
}

fn interceptor(net: Arc<Mutex<Net>>) -> DynStreamInterceptor {
    crate::sync::Arc::new(move |ctx: &InspectContext, data: &mut Vec<u8>| {
        let mut st = net.lock().unwrap();
        match ctx {
            InspectContext::ShardMessage { .. } => st.shard_msgs += 1,
            InspectContext::MpcMessage { shard, source, gate, .. } => {
                if !data.is_empty() {
                    let v = st.mpc_sent.entry((helper_index(*source), shard.map_or(0, usize::from))).or_default();
                    if v.len() < 4 {
                        v.push(gate.as_ref().to_string());
                    }
                }
            }
        }
    })
}

#[derive(Clone, Debug)]
enum Out<T> {
    Ok(T),
    Err { variant: String, display: String },
    Panic { loc: String, msg: String },
}

impl<T> Out<T> {
    fn describe(&self) -> String {
        match self {
            Out::Ok(_) => "Ok".to_string(),
            Out::Err { variant, display } => format!("Err({variant}: {display})"),
            Out::Panic { loc, msg } => format!("panic at {loc}: {msg}"),
        }
    }
    fn is_dup(&self) -> bool {
        matches!(self, Out::Err { variant, .. } if variant == "DuplicateBytes")
    }
}

type Outcomes<T> = Vec<Vec<Option<Out<T>>>>;

fn error_variant(e: &Error) -> String {
    let d = format!("{e:?}");
    d.split(|c: char| !(c.is_alphanumeric() || c == '_')).next().unwrap_or("").to_string()
}

fn summary<T>(o: &Outcomes<T>) -> Value {
    json!(o.iter().map(|per| per.iter().map(|o| o.as_ref().map_or("pending".to_string(), Out::describe)).collect::<Vec<_>>()).collect::<Vec<_>>())
}

/// Poll the helper-shard futures until `done(outcomes)`, all finished, or the timeout.
async fn drive_until<'a, T, F>(futs: Vec<(usize, usize, F)>, shards: usize, timeout: Duration, done: &(dyn Fn(&Outcomes<T>) -> bool + 'a)) -> (Outcomes<T>, bool)
where
    F: std::future::Future<Output = Result<T, Error>> + 'a,
    T: Clone,
{
    let mut outcomes: Outcomes<T> = vec![vec![None; shards]; 3];
    let mut pending: FuturesUnordered<_> = futs
        .into_iter()
        .map(|(h, s, f)| async move {
            let _ = take_last_panic();
            let r = AssertUnwindSafe(f).catch_unwind().await;
            let o = match r {
                Ok(Ok(v)) => Out::Ok(v),
                Ok(Err(e)) => Out::Err { variant: error_variant(&e), display: e.to_string() },
                Err(p) => {
                    let msg = panic_message(&p);
                    let (loc, m2) = take_last_panic().unwrap_or_else(|| ("?".into(), msg.clone()));
                    Out::Panic { loc: strip_repo_prefix(&loc), msg: if m2.is_empty() { msg } else { m2 } }
                }
            };
            (h, s, o)
        })
        .collect();
    let deadline = tokio::time::Instant::now() + timeout;
    let mut timed_out = false;
    loop {
        match tokio::time::timeout_at(deadline, pending.next()).await {
            Ok(Some((h, s, o))) => {
                outcomes[h][s] = Some(o);
                if done(&outcomes) {
                    break;
                }
            }
            Ok(None) => break,
            Err(_) => {
                timed_out = true;
                break;
            }
        }
    }
    // cancelling helpers that hold unverified multiplications panics by design (drop guard)
    let _ = catch(move || drop(pending));
    (outcomes, timed_out)
}

/// The sequence `Query::execute` runs before attribution (query/runner/hybrid.rs, `execute`:
/// `ctx.narrow(&Hybrid)`, the `LengthDelimitedStream` -> decrypt -> `UniqueTag` -> `take(sz)`
/// stream, `reshard_aad(ctx.narrow(&HybridStep::ReshardByTag), seq_join(ctx.active_work(), stream),
/// |ctx, _, tag| tag.shard_picker(ctx.shard_count()))`, `UniqueTagValidator::new(len)`,
/// `check_duplicates(&resharded_tags)?`), replicated statement by statement. Returns the number
/// of decrypted reports kept on this shard and the tags it was handed.
async fn uniqueness_path<C: ShardedContext>(ctx: C, key_registry: Arc<KeyRegistry<KeyPair>>, query_size: QuerySize, input_stream: BodyStream) -> Result<(usize, Vec<Tag>), Error> {
    let key_registry = &key_registry;
    let ctx = ctx.narrow(&Hybrid);
    let sz = usize::from(query_size);
    let stream = LengthDelimitedStream::<EncryptedHybridReport<BA8, BA3>, _>::new(input_stream)
        .map_err(Into::into)
        .try_flatten_iters()
        .map(|enc_report_res| async move {
            enc_report_res.and_then(|enc_report| {
                let dec_report = enc_report.decrypt(key_registry.as_ref()).map_err(Into::<Error>::into);
                let unique_tag = UniqueTag::from_unique_bytes(&enc_report);
                dec_report.map(|dec_report1| (dec_report1, unique_tag))
            })
        })
        .take(sz);

    let (decrypted_reports, resharded_tags) =
        reshard_aad(ctx.narrow(&HybridStep::ReshardByTag), seq_join(ctx.active_work(), stream), |ctx, _, tag| tag.shard_picker(ctx.shard_count())).await?;

    let mut unique_encrypted_hybrid_reports = UniqueTagValidator::new(resharded_tags.len());
    unique_encrypted_hybrid_reports.check_duplicates(&resharded_tags)?;
    Ok((decrypted_reports.len(), resharded_tags.iter().map(UniqueBytes::unique_bytes).collect()))
}

struct RunU {
    outcomes: Outcomes<(usize, Vec<Tag>)>,
    timed_out: bool,
}

struct RunQ {
    outcomes: Outcomes<Vec<(u128, u128)>>,
    timed_out: bool,
    mpc_sent: BTreeMap<(usize, usize), Vec<String>>,
    elapsed: Duration,
}

fn buffers(case: &Case, enc: &Encrypted) -> Vec<Vec<Vec<u8>>> {
    (0..3).map(|h| case.layout.iter().map(|l| l.iter().flat_map(|r| enc.bytes[h][*r].iter().copied()).collect()).collect()).collect()
}

fn world_config(case: &Case, net: &Arc<Mutex<Net>>) -> TestWorldConfig {
    let mut wc = TestWorldConfig::default();
    wc.seed = case.world_seed;
    wc.stream_interceptor = interceptor(Arc::clone(net));
    wc.timeout = None;
    if case.active != 0 {
        wc.gateway_config.active = (case.active as usize).try_into().unwrap();
    }
    wc
}

async fn run_uniqueness_in<const N: usize>(case: &Case, enc: &Encrypted) -> RunU {
    let net = Arc::new(Mutex::new(Net::default()));
    let world = TestWorld::<WithShards<N>>::with_shards(&world_config(case, &net));
    let bufs = buffers(case, enc);
    let mut futs = vec![];
    for (h, (hc, hb)) in world.malicious_contexts().into_iter().zip(bufs).enumerate() {
        for (s, (ctx, buf)) in hc.into_iter().zip(hb).enumerate() {
            let (chunk, delays) = case.chunking[h][s].clone();
            let input = body(buf, chunk, &delays);
            let qs = QuerySize::try_from(case.query_sizes[s]).unwrap();
            futs.push((h, s, uniqueness_path(ctx, Arc::clone(&enc.registry), qs, input)));
        }
    }
    let (outcomes, timed_out) = drive_until(futs, N, case.timeout, &|_| false).await;
    let _ = catch(move || drop(world));
    RunU { outcomes, timed_out }
}

async fn run_query_in<const N: usize>(case: &Case, enc: &Encrypted, expect_fail: &[BTreeSet<usize>]) -> RunQ {
    let net = Arc::new(Mutex::new(Net::default()));
    let t0 = std::time::Instant::now();
    let world = TestWorld::<WithShards<N>>::with_shards(&world_config(case, &net));
    let bufs = buffers(case, enc);
    let mut futs = vec![];
    for (h, (hc, hb)) in world.malicious_contexts().into_iter().zip(bufs).enumerate() {
        for (s, (ctx, buf)) in hc.into_iter().zip(hb).enumerate() {
            let (chunk, delays) = case.chunking[h][s].clone();
            let input = body(buf, chunk, &delays);
            let qs = QuerySize::try_from(case.query_sizes[s]).unwrap();
            let registry = Arc::clone(&enc.registry);
            futs.push((h, s, async move {
                let query_params = HybridQueryParams { with_dp: 0, ..Default::default() };
                let r = HybridQuery::<_, BA32, KeyRegistry<KeyPair>>::new(query_params, registry).execute(ctx, qs, input).await?;
                Ok::<_, Error>(r.iter().map(|s| (s.left().as_u128(), s.right().as_u128())).collect::<Vec<(u128, u128)>>())
            }));
        }
    }
    // with duplicates: stop as soon as every shard that must reject has returned (its siblings
    // wait for it forever); without: run to completion
    let any_expected = expect_fail.iter().any(|e| !e.is_empty());
    let done = |o: &Outcomes<Vec<(u128, u128)>>| any_expected && (0..3).all(|h| expect_fail[h].iter().all(|d| o[h][*d].is_some()));
    let (outcomes, timed_out) = drive_until(futs, N, case.timeout, &done).await;
    let elapsed = t0.elapsed();
    let _ = catch(move || drop(world));
    let mpc_sent = net.lock().unwrap().mpc_sent.clone();
    RunQ { outcomes, timed_out, mpc_sent, elapsed }
}


/// A case whose futures never yield (a busy loop inside the code under test) cannot be ended by
/// the tokio timeout; this thread ends the process with the "inconclusive" status instead of
/// leaving it to the outer watchdog of ./check.
struct Watchdog {
    _tx: std::sync::mpsc::Sender<()>,
}

fn watchdog(limit: Duration, what: String) -> Watchdog {
    let (tx, rx) = std::sync::mpsc::channel::<()>();
    std::thread::spawn(move || {
        if let Err(std::sync::mpsc::RecvTimeoutError::Timeout) = rx.recv_timeout(limit) {
            eprintln!("[verif] a case did not return within {limit:?} although its timeout is shorter (future that never yields?) - inconclusive: {what}");
            std::process::exit(2);
        }
    });
    Watchdog { _tx: tx }
}

macro_rules! by_shards {
    ($case:expr, $f:ident ( $($arg:expr),* )) => {{
        let case: &Case = $case;
        let _wd = watchdog(case.timeout * 2 + Duration::from_secs(120), case.json().to_string());
        macro_rules! with {
            ($s:literal) => {{
                let fut = $f::<$s>($($arg),*);
                if case.workers == 0 { block_on(fut) } else { block_on_mt(case.workers, fut) }
            }};
        }
        match case.shards {
            1 => with!(1),
            2 => with!(2),
            3 => with!(3),
            _ => with!(5),
        }
    }};
}

// ------------------------------------------------------------------------------------------
// generator
// ------------------------------------------------------------------------------------------

#[derive(Clone, Copy, PartialEq, Eq)]
enum Dups {
    None,
    Some,
    Either,
}

fn gen_rows(src: &mut Src<'_>, n: usize, want_pairs: bool) -> Vec<Row> {
    // match keys from a small pool so that pairs, singles and triples all occur
    let mut rows = vec![];
    let mut k = 0u64;
    while rows.len() < n {
        let mk = 0x1_0000 + k;
        k += 1;
        let left = n - rows.len();
        let count = if want_pairs && rows.is_empty() { 2.min(left) } else { [2usize, 2, 1, 2, 3, 2][src.idx(6)].min(left) };
        for j in 0..count {
            let conv = match src.below(3) {
                0 => j % 2 == 1,
                1 => true,
                _ => src.bool(),
            };
            rows.push(if conv { Row { mk, kind: RowKind::Conversion, payload: 1 + src.below(7) as u8 } } else { Row { mk, kind: RowKind::Impression, payload: src.below(256) as u8 } });
        }
    }
    let p = src.perm(rows.len());
    p.into_iter().map(|i| rows[i]).collect()
}

struct Generated {
    case: Case,
    labels: Vec<String>,
}

fn gen_case(env: &Env, src: &mut Src<'_>, path: Path, dups: Dups) -> Generated {
    let mut labels = vec![];
    let whole = path == Path::Query;
    let shards = src.pick(&[2usize, 3, 5, 1, 2, 3, 5, 2]);
    let max = if env.thorough() { 200 } else { 60 };
    let n = match (whole && dups == Dups::None, src.below(8)) {
        (true, _) => src.urange(shards.max(4), 24),
        (false, 0) => shards.max(1),
        (false, 1) => src.urange(shards, shards + 3),
        (false, 2 | 3) => src.urange(shards, 12.max(shards)),
        _ => src.urange(shards, max),
    };
    let rows = gen_rows(src, n, whole);
    // placement of the originals
    let mode = src.below(4);
    let mut assign: Vec<usize> = (0..n)
        .map(|i| match mode {
            0 => i % shards,
            1 => src.idx(shards),
            2 => {
                if src.chance(1, 6) {
                    src.idx(shards)
                } else {
                    0
                }
            }
            _ => (i * shards) / n.max(1),
        })
        .collect();
    labels.push(format!("placement:{}", ["round-robin", "random", "skewed", "blocks"][mode as usize]));
    if whole {
        // `hybrid_protocol` returns early on an empty shard input and its siblings then wait for
        // it forever (C01 known finding empty-shard-hang): whole-query cases give every shard input
        for s in 0..shards {
            if !assign.iter().any(|a| *a == s) {
                let mut cnt = vec![0usize; shards];
                for a in &assign {
                    cnt[*a] += 1;
                }
                let big = (0..shards).max_by_key(|s| cnt[*s]).unwrap();
                let pos = assign.iter().position(|a| *a == big).unwrap();
                assign[pos] = s;
            }
        }
    }
    let mut layout: Vec<Vec<usize>> = vec![vec![]; shards];
    for (r, s) in assign.iter().enumerate() {
        layout[*s].push(r);
    }
    // duplicate sets
    let with_dups = match dups {
        Dups::None => false,
        Dups::Some => true,
        Dups::Either => src.chance(3, 5),
    };
    if with_dups {
        // (number of pairs, number of triples)
        let (pairs, triples) = match src.below(6) {
            0 | 1 | 2 => (1, 0),
            3 => (src.urange(2, 4), 0),
            4 => (0, 1),
            _ => (src.urange(1, 2), 1),
        };
        let sets = (pairs + triples).min(n);
        let chosen: Vec<usize> = src.perm(n).into_iter().take(sets).collect();
        let mut same = false;
        let mut diff = false;
        let mut adjacent = false;
        let mut apart = false;
        for (k, r) in chosen.iter().enumerate() {
            let extra = if k < triples { 2 } else { 1 };
            for _ in 0..extra {
                let home = assign[*r];
                let target = match src.below(3) {
                    0 => home,
                    1 => (home + 1 + src.idx(shards.max(2) - 1)) % shards,
                    _ => src.idx(shards),
                };
                if target == home {
                    same = true;
                } else {
                    diff = true;
                }
                let l = &mut layout[target];
                let at = match src.below(4) {
                    0 => 0,
                    1 => l.len(),
                    2 => l.iter().position(|x| x == r).map_or(l.len(), |p| p + 1), // right after the original
                    _ => src.idx(l.len() + 1),
                };
                l.insert(at, *r);
                let pos: Vec<usize> = l.iter().enumerate().filter(|(_, x)| *x == r).map(|(i, _)| i).collect();
                if pos.len() >= 2 {
                    if pos.windows(2).any(|w| w[1] == w[0] + 1) {
                        adjacent = true;
                    } else {
                        apart = true;
                    }
                }
            }
        }
        labels.push(format!("dup-sets:{}", match sets { 1 => "1", 2 => "2", _ => "3+" }));
        if triples > 0 {
            labels.push("has-triple".into());
        }
        if same {
            labels.push("copies:in-the-same-shard-input".into());
        }
        if diff {
            labels.push("copies:in-different-shard-inputs".into());
        }
        if adjacent {
            labels.push("copies:adjacent".into());
        }
        if apart {
            labels.push("copies:same-input-not-adjacent".into());
        }
    } else {
        labels.push("dup-sets:0".into());
    }
    let total: usize = layout.iter().map(Vec::len).sum();
    // per-shard query size: the exact number of records, or an upper bound (the runner truncates
    // the input stream to `query_size` records; a stream may be shorter)
    let qmode = src.below(3);
    let query_sizes: Vec<usize> = layout
        .iter()
        .map(|l| match qmode {
            0 => l.len().max(1),
            1 => total.max(1),
            _ => l.len() + 1 + src.idx(5),
        })
        .collect();
    labels.push(format!("query-size:{}", ["exact", "query-total", "overstated"][qmode as usize]));
    if layout.iter().any(Vec::is_empty) {
        labels.push("empty-shard-input".into());
    }
    let workers = src.pick(&[0usize, 0, 2, 4]);
    let active = if whole { 0 } else { src.pick(&[0u32, 8, 32, 256, 0]) };
    let chunking: Vec<Vec<(usize, Vec<u8>)>> = (0..3)
        .map(|_| {
            (0..shards)
                .map(|_| {
                    let chunk = src.pick(&[0usize, 0, 7, 64, 153, 1000]);
                    let delays = if src.chance(1, 2) { (0..3).map(|_| src.below(4) as u8).collect() } else { vec![] };
                    (chunk, delays)
                })
                .collect()
        })
        .collect();
    labels.push(format!("shards:{shards}"));
    labels.push(format!("workers:{workers}"));
    labels.push(format!("active:{}", if active == 0 { "default".into() } else { active.to_string() }));
    labels.push(format!("reports:{}", match total { 0..=5 => "1-5", 6..=19 => "6-19", 20..=60 => "20-60", _ => "61+" }));
    if chunking.iter().flatten().any(|(c, _)| *c != 0) {
        labels.push("input:chunked".into());
    }
    let case = Case {
        shards,
        rows,
        layout,
        query_sizes,
        workers,
        active,
        chunking,
        world_seed: src.seed(),
        enc_seed: src.seed(),
        timeout: Duration::from_secs(if whole && !with_dups { 240 } else { 30 }),
    };
    Generated { case, labels }
}

/// per helper: shards that receive two or more copies of one of that helper's ciphertexts
fn expected_failures(case: &Case, enc: &Encrypted) -> Vec<BTreeSet<usize>> {
    let dups = case.dup_reports();
    (0..3).map(|h| dups.iter().map(|r| enc.routed[h][*r]).collect()).collect()
}

fn routing_labels(case: &Case, enc: &Encrypted, labels: &mut Vec<String>) {
    labels.push(if enc.tag_collisions == 0 { "tags-of-distinct-reports:all-distinct".into() } else { "tags-of-distinct-reports:COLLISION".to_string() });
    let dups = case.dup_reports();
    let homes = |r: usize| -> BTreeSet<usize> { (0..case.shards).filter(|s| case.layout[*s].contains(&r)).collect() };
    let (mut leader, mut non_leader, mut via_third, mut stays) = (false, false, false, false);
    for r in &dups {
        for h in 0..3 {
            let d = enc.routed[h][*r];
            if d == 0 {
                leader = true;
            } else {
                non_leader = true;
            }
            if homes(*r).contains(&d) {
                stays = true;
            } else {
                via_third = true;
            }
        }
    }
    if leader {
        labels.push("routed-to:leader-shard".into());
    }
    if non_leader {
        labels.push("routed-to:non-leader-shard".into());
    }
    if via_third {
        labels.push("routed-to:shard-holding-no-copy".into());
    }
    if stays {
        labels.push("routed-to:shard-holding-a-copy".into());
    }
    if dups.iter().any(|r| (0..3).map(|h| enc.routed[h][*r]).collect::<BTreeSet<_>>().len() > 1) {
        labels.push("routed-differently-on-different-helpers".into());
    }
}

fn nontrivial(case: &Case) -> bool {
    let dups = case.dup_reports();
    let two_sources = dups.iter().any(|r| (0..case.shards).filter(|s| case.layout[*s].contains(r)).count() >= 2);
    two_sources || dups.len() >= 2
}

// ------------------------------------------------------------------------------------------
// sub-checks
// ------------------------------------------------------------------------------------------

fn uniqueness(env: &Env, src: &mut Src<'_>) -> CaseResult {
    let Generated { case, mut labels } = gen_case(env, src, Path::Uniqueness, Dups::Either);
    let enc = match encrypt(&case) {
        Ok(e) => e,
        Err(e) => return Err(CaseErr::Reject(e)),
    };
    let cj = case.json();
    routing_labels(&case, &enc, &mut labels);
    let run: RunU = by_shards!(&case, run_uniqueness_in(&case, &enc));
    if run.timed_out {
        return Ok(CaseOk::new(false, &0u8, Value::Null).label("inconclusive:timeout").labels(labels));
    }
    let expect = expected_failures(&case, &enc);
    for h in 0..3 {
        // tags that must arrive at each shard of this helper
        let mut routed: Vec<Vec<Tag>> = vec![vec![]; case.shards];
        for l in &case.layout {
            for r in l {
                routed[enc.routed[h][*r]].push(enc.tags[h][*r]);
            }
        }
        for d in 0..case.shards {
            let o = run.outcomes[h][d].as_ref().expect("all futures finished");
            let must_fail = expect[h].contains(&d);
            match o {
                Out::Panic { loc, msg } => return Err(violation(format!("panic:{}", loc_file(loc)), format!("helper {h} shard {d} panicked at {loc}: {msg}"), cj)),
                Out::Err { .. } if o.is_dup() => {
                    if !must_fail {
                        return Err(violation("distinct-reports-rejected", format!("helper {h} shard {d} returned {} although the {} encrypted reports whose tags are routed to it are pairwise distinct", o.describe(), routed[d].len()), cj));
                    }
                }
                Out::Err { variant, display } => {
                    return Err(violation(format!("unexpected-error:{variant}"), format!("helper {h} shard {d}: {display}"), cj));
                }
                Out::Ok((kept, tags)) => {
                    if must_fail {
                        return Err(violation("duplicate-not-rejected", format!("helper {h} shard {d} passed the uniqueness check although two copies of the same encrypted report are routed to it ({} tags routed, it holds {})", routed[d].len(), tags.len()), cj));
                    }
                    // the check can only see what resharding hands it: all tags routed here must have
                    // arrived (as a multiset), and the decrypted reports stay where they were submitted
                    let mut a = tags.clone();
                    let mut b = routed[d].clone();
                    a.sort();
                    b.sort();
                    if a != b {
                        return Err(violation("reshard-aad-tags-incomplete", format!("helper {h} shard {d} holds {} tags after reshard_aad, {} are routed to it by UniqueTag::shard_picker (multisets differ)", a.len(), b.len()), cj));
                    }
                    if *kept != case.layout[d].len() {
                        return Err(violation("reshard-aad-reports-lost", format!("helper {h} shard {d} kept {kept} decrypted reports of {} submitted", case.layout[d].len()), cj));
                    }
                }
            }
        }
    }
    let nt = nontrivial(&case);
    Ok(CaseOk { nontrivial: nt, digest: digest(&(&case.layout, case.shards, case.enc_seed)), labels, sample: json!({"shards": case.shards, "layout": case.layout, "expected_failing_shards": expect}) })
}

fn query_duplicates(env: &Env, src: &mut Src<'_>) -> CaseResult {
    let Generated { case, mut labels } = gen_case(env, src, Path::Query, Dups::Some);
    let enc = match encrypt(&case) {
        Ok(e) => e,
        Err(e) => return Err(CaseErr::Reject(e)),
    };
    let cj = case.json();
    routing_labels(&case, &enc, &mut labels);
    let expect = expected_failures(&case, &enc);
    let run: RunQ = by_shards!(&case, run_query_in(&case, &enc, &expect));
    let cj = json!({"case": cj, "expected_failing_shards": expect, "outcomes": summary(&run.outcomes)});
    // no helper-shard may complete
    for h in 0..3 {
        for d in 0..case.shards {
            match &run.outcomes[h][d] {
                Some(Out::Ok(v)) => {
                    return Err(violation("query-completed-despite-duplicate", format!("helper {h} shard {d} returned Ok({} shares) although the query input contains a duplicated report", v.len()), cj));
                }
                Some(o) if o.is_dup() && !expect[h].contains(&d) => {
                    return Err(violation("duplicate-reported-on-wrong-shard", format!("helper {h} shard {d} returned {} but no duplicated tag is routed to it", o.describe()), cj));
                }
                _ => {}
            }
        }
    }
    let mut missing = false;
    for h in 0..3 {
        for d in &expect[h] {
            match &run.outcomes[h][*d] {
                Some(o) if o.is_dup() => {
                    // before attribution starts: this helper-shard has not sent anything to another helper
                    if let Some(g) = run.mpc_sent.get(&(h, *d)) {
                        return Err(violation("duplicate-detected-after-attribution-started", format!("helper {h} shard {d} returned {} but had already sent MPC data (first gates: {g:?})", o.describe()), cj));
                    }
                }
                Some(Out::Panic { loc, msg }) => return Err(violation(format!("panic:{}", loc_file(loc)), format!("helper {h} shard {d} panicked at {loc}: {msg}"), cj)),
                Some(o) => {
                    return Err(violation("duplicate-not-rejected", format!("helper {h} shard {d} must fail with DuplicateBytes (two copies of one encrypted report are routed to it) but returned {}", o.describe()), cj));
                }
                None => missing = true,
            }
        }
    }
    if missing {
        // only possible through the per-case timeout
        return Ok(CaseOk::new(false, &0u8, Value::Null).label(if run.timed_out { "inconclusive:timeout" } else { "inconclusive:cancelled" }).labels(labels));
    }
    let others_pending = run.outcomes.iter().flatten().filter(|o| o.is_none()).count();
    labels.push(if others_pending > 0 { "siblings:still-running-when-stopped".into() } else { "siblings:all-returned".to_string() });
    Ok(CaseOk { nontrivial: nontrivial(&case), digest: digest(&(&case.layout, case.shards, case.enc_seed)), labels, sample: json!({"shards": case.shards, "layout": case.layout, "expected_failing_shards": expect, "elapsed_ms": run.elapsed.as_millis() as u64}) })
}

fn query_execute_honest(env: &Env, src: &mut Src<'_>) -> CaseResult {
    let Generated { case, mut labels } = gen_case(env, src, Path::Query, Dups::None);
    let enc = match encrypt(&case) {
        Ok(e) => e,
        Err(e) => return Err(CaseErr::Reject(e)),
    };
    let cj = case.json();
    routing_labels(&case, &enc, &mut labels);
    let (want, pairs) = reference_histogram(&case.rows, 32);
    let none: Vec<BTreeSet<usize>> = vec![BTreeSet::new(); 3];
    let run: RunQ = by_shards!(&case, run_query_in(&case, &enc, &none));
    let cj = json!({"case": cj, "outcomes": summary(&run.outcomes)});
    for h in 0..3 {
        for d in 0..case.shards {
            match &run.outcomes[h][d] {
                Some(o) if o.is_dup() => return Err(violation("distinct-reports-rejected", format!("helper {h} shard {d} returned {} on pairwise distinct reports", o.describe()), cj)),
                Some(Out::Err { variant, display }) if variant == "ZeroRecords" => {
                    // C01's listed finding (a stage left with zero rows on a shard), not a C11 matter
                    if env.is_known("C01", "zero-records") {
                        note_known("C01:zero-records");
                        labels.push("c01-known:zero-records".into());
                        return Ok(CaseOk::new(false, &0u8, Value::Null).labels(labels));
                    }
                    return Err(violation("honest-error:ZeroRecords", format!("helper {h} shard {d}: {display}"), cj));
                }
                Some(Out::Err { variant, display }) => return Err(violation(format!("honest-error:{variant}"), format!("helper {h} shard {d} failed an honest query: {display}"), cj)),
                Some(Out::Panic { loc, msg }) => return Err(violation(format!("panic:{}", loc_file(loc)), format!("helper {h} shard {d} panicked at {loc}: {msg}"), cj)),
                Some(Out::Ok(_)) => {}
                None => {
                    labels.push("inconclusive:timeout".into());
                    return Ok(CaseOk::new(false, &0u8, Value::Null).labels(labels));
                }
            }
        }
    }
    let get = |h: usize, d: usize| match &run.outcomes[h][d] {
        Some(Out::Ok(v)) => v,
        _ => unreachable!(),
    };
    for d in 1..case.shards {
        match reconstruct3(get(0, d), get(1, d), get(2, d), u128::MAX) {
            Ok(r) if r.iter().all(|v| *v == 0) => {}
            Ok(_) => return Err(violation("follower-output", format!("follower shard {d} returned a non-zero output"), cj)),
            Err(e) => return Err(violation("bad-output-sharing", format!("follower shard {d}: {e}"), cj)),
        }
    }
    match reconstruct3(get(0, 0), get(1, 0), get(2, 0), u128::MAX) {
        Ok(got) => {
            if got != want {
                let diff: Vec<_> = (0..256).filter(|i| got.get(*i) != want.get(*i)).take(6).map(|i| json!({"bucket": i, "got": got.get(i).map(|v| v.to_string()), "want": want[i].to_string()})).collect();
                return Err(violation("wrong-histogram", format!("histogram of Query::execute differs from the plaintext attribution: {}", serde_json::to_string(&diff).unwrap()), cj));
            }
        }
        Err(e) => return Err(violation("bad-output-sharing", e, cj)),
    }
    labels.push(format!("pairs:{}", match pairs { 0 => "0", 1..=3 => "1-3", _ => "4+" }));
    Ok(CaseOk { nontrivial: pairs >= 1, digest: digest(&(&case.rows, &case.layout, case.shards)), labels, sample: json!({"shards": case.shards, "n_reports": case.rows.len(), "pairs": pairs, "elapsed_ms": run.elapsed.as_millis() as u64}) })
}

pub fn subs(_env: &Env) -> Vec<Sub> {
    vec![
        Sub::random(
            "uniqueness_path", 600, 2400, 40_000, uniqueness,
            "n distinct HPKE-encrypted reports (tags asserted pairwise distinct per helper), shards {1,2,3,5}, 1..60 reports (thorough ..200), placement {round-robin, random, skewed, blocks}; 0 / 1 pair / several pairs / a triple / pairs+triple of identical bytes inserted into a generated shard's input (same shard as the original, another shard, random) at a generated position (first, last, adjacent to the original, random), identically on the three helpers; per-shard query size {exact, query total, overstated}; input body chunking/Pending pattern per helper-shard, gateway active {default,8,32,256}, runtime {current-thread, 2/4 workers}; runs the decrypt -> reshard_aad(ReshardByTag) -> UniqueTagValidator::check_duplicates statements of Query::execute on the sharded malicious contexts; oracle: helper h shard d returns Err(DuplicateBytes) iff two copies of one of h's ciphertexts are routed to d by UniqueTag::shard_picker; otherwise Ok, holding exactly the routed tags and all its decrypted reports; non-trivial = copies of a set in two different shard inputs, or >= 2 duplicate sets",
        )
        .shrink_iters(40),
        Sub::random(
            "query_duplicates", 600, 240, 6000, query_duplicates,
            "same generator, always >= 1 duplicate set, every shard input non-empty, through the whole Query::execute on TestWorld<WithShards<S>>::malicious_contexts(); oracle: on each helper every shard a duplicated tag is routed to returns Err(DuplicateBytes) without having sent any MPC message, no helper-shard returns Ok, DuplicateBytes only on routed shards; the case is stopped when all routed shards have returned (siblings wait for them forever)",
        )
        .shrink_iters(6),
        Sub::random(
            "query_execute_honest", 600, 20, 320, query_execute_honest,
            "4..24 pairwise distinct reports (match-key pool with pairs, singles, triples), every shard input non-empty, whole Query::execute (default padding, no DP); oracle: no DuplicateBytes, all helper-shards Ok, follower shards output nothing, leader histogram = independent plaintext attribution; non-trivial = >= 1 attributed pair",
        )
        .shrink_iters(0)
        .streams(10),
    ]
}

#[test]
fn run() {
    let env = Env::from_env();
    let s = subs(&env);
    crate::ipa_verif::common::run_main(env, LEVEL, s)
}
