// H6: inside protocol::ipa_prf - re-exports of items of the private module `malicious_security`
// for the root harness.
#[allow(unused_imports)]
pub(crate) use super::malicious_security::lagrange::{CanonicalLagrangeDenominator, LagrangeTable};
