// List of property modules (kept separate so that a development build can include a subset).
#[cfg(not(feature = "shuttle"))]
prop_mod!(mpc, "mpc.rs");
#[cfg(not(feature = "shuttle"))]
prop_mod!(c01, "c01.rs");
#[cfg(all(descriptive_gate, not(feature = "shuttle")))]
prop_mod!(c02, "c02.rs");
#[cfg(all(descriptive_gate, not(feature = "shuttle")))]
prop_mod!(c03, "c03.rs");
#[cfg(all(descriptive_gate, not(feature = "shuttle")))]
prop_mod!(c04, "c04.rs");
#[cfg(all(descriptive_gate, not(feature = "shuttle")))]
prop_mod!(c05, "c05.rs");
#[cfg(all(descriptive_gate, not(feature = "shuttle")))]
prop_mod!(c06, "c06.rs");
#[cfg(all(descriptive_gate, not(feature = "shuttle")))]
prop_mod!(c07, "c07.rs");
#[cfg(all(descriptive_gate, not(feature = "shuttle")))]
prop_mod!(c08, "c08.rs");
#[cfg(all(descriptive_gate, not(feature = "shuttle")))]
prop_mod!(c09, "c09.rs");
#[cfg(all(descriptive_gate, not(feature = "shuttle")))]
prop_mod!(c10, "c10.rs");
#[cfg(all(descriptive_gate, not(feature = "shuttle")))]
prop_mod!(c12, "c12.rs");
prop_mod!(c13, "c13.rs");
prop_mod!(c15, "c15.rs");
prop_mod!(c16, "c16.rs");
prop_mod!(c17, "c17.rs");
#[cfg(all(descriptive_gate, not(feature = "shuttle")))]
prop_mod!(c18, "c18.rs");
#[cfg(all(descriptive_gate, not(feature = "shuttle")))]
prop_mod!(c19, "c19.rs");
#[cfg(all(descriptive_gate, not(feature = "shuttle")))]
prop_mod!(c20, "c20.rs");

fn dispatch(env: &common::Env) -> (&'static str, Vec<common::Sub>) {
    match env.prop.as_str() {
        #[cfg(not(feature = "shuttle"))]
        "C01" => (c01::LEVEL, c01::subs(env)),
        #[cfg(all(descriptive_gate, not(feature = "shuttle")))]
        "C02" => (c02::LEVEL, c02::subs(env)),
        #[cfg(all(descriptive_gate, not(feature = "shuttle")))]
        "C03" => (c03::LEVEL, c03::subs(env)),
        #[cfg(all(descriptive_gate, not(feature = "shuttle")))]
        "C04" => (c04::LEVEL, c04::subs(env)),
        #[cfg(all(descriptive_gate, not(feature = "shuttle")))]
        "C05" => (c05::LEVEL, c05::subs(env)),
        #[cfg(all(descriptive_gate, not(feature = "shuttle")))]
        "C06" => (c06::LEVEL, c06::subs(env)),
        #[cfg(all(descriptive_gate, not(feature = "shuttle")))]
        "C07" => (c07::LEVEL, c07::subs(env)),
        #[cfg(all(descriptive_gate, not(feature = "shuttle")))]
        "C08" => (c08::LEVEL, c08::subs(env)),
        #[cfg(all(descriptive_gate, not(feature = "shuttle")))]
        "C09" => (c09::LEVEL, c09::subs(env)),
        #[cfg(all(descriptive_gate, not(feature = "shuttle")))]
        "C10" => (c10::LEVEL, c10::subs(env)),
        #[cfg(all(descriptive_gate, not(feature = "shuttle")))]
        "C12" => (c12::LEVEL, c12::subs(env)),
        "C13" => (c13::LEVEL, c13::subs(env)),
        "C15" => (c15::LEVEL, c15::subs(env)),
        "C16" => (c16::LEVEL, c16::subs(env)),
        "C17" => (c17::LEVEL, c17::subs(env)),
        #[cfg(all(descriptive_gate, not(feature = "shuttle")))]
        "C18" => (c18::LEVEL, c18::subs(env)),
        #[cfg(all(descriptive_gate, not(feature = "shuttle")))]
        "C19" => (c19::LEVEL, c19::subs(env)),
        #[cfg(all(descriptive_gate, not(feature = "shuttle")))]
        "C20" => (c20::LEVEL, c20::subs(env)),
        other => panic!("no harness for property {other} in this build"),
    }
}
