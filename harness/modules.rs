// List of property modules (kept separate so that a development build can include a subset).
prop_mod!(mpc, "mpc.rs");
prop_mod!(c01, "c01.rs");
#[cfg(descriptive_gate)]
prop_mod!(c02, "c02.rs");
#[cfg(descriptive_gate)]
prop_mod!(c03, "c03.rs");
#[cfg(descriptive_gate)]
prop_mod!(c04, "c04.rs");
#[cfg(descriptive_gate)]
prop_mod!(c05, "c05.rs");
#[cfg(descriptive_gate)]
prop_mod!(c06, "c06.rs");
#[cfg(descriptive_gate)]
prop_mod!(c08, "c08.rs");
#[cfg(descriptive_gate)]
prop_mod!(c12, "c12.rs");
#[cfg(descriptive_gate)]
prop_mod!(c18, "c18.rs");
#[cfg(descriptive_gate)]
prop_mod!(c20, "c20.rs");

fn dispatch(env: &common::Env) -> (&'static str, Vec<common::Sub>) {
    match env.prop.as_str() {
        "C01" => (c01::LEVEL, c01::subs(env)),
        #[cfg(descriptive_gate)]
        "C02" => (c02::LEVEL, c02::subs(env)),
        #[cfg(descriptive_gate)]
        "C03" => (c03::LEVEL, c03::subs(env)),
        #[cfg(descriptive_gate)]
        "C04" => (c04::LEVEL, c04::subs(env)),
        #[cfg(descriptive_gate)]
        "C05" => (c05::LEVEL, c05::subs(env)),
        #[cfg(descriptive_gate)]
        "C06" => (c06::LEVEL, c06::subs(env)),
        #[cfg(descriptive_gate)]
        "C08" => (c08::LEVEL, c08::subs(env)),
        #[cfg(descriptive_gate)]
        "C12" => (c12::LEVEL, c12::subs(env)),
        #[cfg(descriptive_gate)]
        "C18" => (c18::LEVEL, c18::subs(env)),
        #[cfg(descriptive_gate)]
        "C20" => (c20::LEVEL, c20::subs(env)),
        other => panic!("no harness for property {other} in this build"),
    }
}
