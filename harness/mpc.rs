// Shared MPC-world machinery (DESIGN 2.2, 2.3): a TestWorld runner that drives the 3*N helper
// futures itself, the record/tamper stream interceptor, and the plaintext reference for the
// hybrid attribution.

use std::{
    collections::BTreeMap,
    panic::AssertUnwindSafe,
    sync::{Arc, Mutex},
    time::{Duration, Instant},
};

use futures::{FutureExt, StreamExt, stream::FuturesUnordered};
use rand::{SeedableRng, rngs::StdRng};
use serde_json::{Value, json};

use super::common::*;
use crate::{
    error::Error,
    ff::{
        U128Conversions,
        boolean_array::{BA3, BA8, BA16, BA32, BA64},
    },
    helpers::{
        HelperIdentity,
        in_memory_config::{DynStreamInterceptor, InspectContext, StreamInterceptor},
        query::DpMechanism,
    },
    protocol::{
        hybrid::hybrid_protocol,
        ipa_prf::oprf_padding::{AggregationPadding, OPRFPadding, PaddingParameters},
    },
    report::hybrid::IndistinguishableHybridReport,
    secret_sharing::{
        IntoShares,
        replicated::{ReplicatedSecretSharing, semi_honest::AdditiveShare as Replicated},
    },
    test_fixture::{TestWorld, TestWorldConfig, WithShards},
};

// ------------------------------------------------------------------------------------------
// input rows and the plaintext reference
// ------------------------------------------------------------------------------------------

#[derive(Clone, Copy, Debug, Hash, PartialEq, Eq, PartialOrd, Ord)]
pub enum RowKind {
    Impression,
    Conversion,
}

/// One report in the clear. An impression carries a breakdown key and value 0, a conversion
/// carries a value and breakdown key 0 (that is how both kinds are made indistinguishable).
#[derive(Clone, Copy, Debug, Hash, PartialEq, Eq, PartialOrd, Ord)]
pub struct Row {
    pub mk: u64,
    pub kind: RowKind,
    /// breakdown key (impressions) or value (conversions)
    pub payload: u8,
}

impl Row {
    pub fn bk(&self) -> u8 {
        if self.kind == RowKind::Impression { self.payload } else { 0 }
    }
    pub fn value(&self) -> u8 {
        if self.kind == RowKind::Conversion { self.payload & 7 } else { 0 }
    }
    pub fn json(&self) -> Value {
        json!({"mk": self.mk, "k": if self.kind == RowKind::Impression {"imp"} else {"conv"}, "p": self.payload})
    }
}

/// Attribution in the clear, written from the property statement: a match key that occurs in
/// exactly two reports adds (v1 + v2) mod 2^3 to bucket (bk1 + bk2) mod 2^8; every other match key
/// contributes nothing; each bucket saturates at 2^hv_bits - 1.
pub fn reference_histogram(rows: &[Row], hv_bits: u32) -> (Vec<u128>, usize) {
    let mut by_mk: BTreeMap<u64, Vec<&Row>> = BTreeMap::new();
    for r in rows {
        by_mk.entry(r.mk).or_default().push(r);
    }
    let mut hist = vec![0u128; 256];
    let mut pairs = 0;
    for (_, rs) in by_mk {
        if rs.len() == 2 {
            pairs += 1;
            let bucket = (u32::from(rs[0].bk()) + u32::from(rs[1].bk())) % 256;
            let v = (u32::from(rs[0].value()) + u32::from(rs[1].value())) % 8;
            hist[bucket as usize] += u128::from(v);
        }
    }
    let cap = (1u128 << hv_bits) - 1;
    for h in &mut hist {
        *h = (*h).min(cap);
    }
    (hist, pairs)
}

// ------------------------------------------------------------------------------------------
// stream interceptor: record / tamper
// ------------------------------------------------------------------------------------------

#[derive(Clone, Debug, PartialEq, Eq, Hash, PartialOrd, Ord)]
pub struct ChannelKey {
    pub shard: u32,
    pub source: usize, // helper index 0..3
    pub dest: usize,
    pub gate: String,
}

#[derive(Clone, Debug)]
pub struct ChunkInfo {
    pub ordinal: usize,
    pub len: usize,
}

#[derive(Clone, Debug)]
pub enum Edit {
    /// flip bit `bit` of byte `byte % len`
    BitFlip { byte: usize, bit: u8 },
    /// xor the whole chunk with a repeating pattern byte (non-zero)
    XorAll { pattern: u8 },
    /// add `delta` (little-endian, wrapping) to the `width`-byte integer at element `elem` and
    /// reduce modulo `modulus` when given (additive attack on field-typed channels that keeps the
    /// encoding valid)
    AddLe { elem: usize, stride: usize, width: usize, delta: u128, modulus: Option<u128> },
    /// replace the chunk by the same number of bytes taken from a pattern
    Replace { pattern: u8 },
    /// decode 32-byte Fp25519 elements, add the given error to the given lanes of the record at
    /// `record` (records are `lanes_per_record` elements wide), re-encode
    Fp25519Add { record: usize, lanes_per_record: usize, errors: Vec<(usize, [u8; 32])> },
    /// decode the 32-byte Ristretto point at element `elem`, add g^`scalar` to it, re-encode (an
    /// additive error on a group-valued message that keeps the encoding valid)
    RistrettoAdd { elem: usize, scalar: [u8; 32] },
}

#[derive(Clone, Debug)]
pub struct Tamper {
    pub key: ChannelKey,
    pub ordinal: usize,
    pub edit: Edit,
}

#[derive(Default)]
pub struct InterceptState {
    /// per channel: chunks seen so far (ordinal = position in this vector)
    pub catalogue: BTreeMap<ChannelKey, Vec<usize>>,
    pub fired: bool,
    pub changed: bool,
    pub shard_msgs: usize,
    pub more_fired: usize,
}

pub struct Interceptor {
    pub state: Mutex<InterceptState>,
    pub tamper: Option<Tamper>,
    /// further edits applied in the same run (a consistent lie over several messages)
    pub more: Vec<Tamper>,
    /// strip the per-run prefix of TestWorld gates so that keys are stable across runs
    pub record: bool,
}

fn helper_index(h: HelperIdentity) -> usize {
    if h == HelperIdentity::ONE {
        0
    } else if h == HelperIdentity::TWO {
        1
    } else {
        2
    }
}

impl Interceptor {
    pub fn new(tamper: Option<Tamper>) -> Arc<Self> {
        Arc::new(Self { state: Mutex::new(InterceptState::default()), tamper, more: vec![], record: true })
    }
    pub fn new_multi(mut tampers: Vec<Tamper>) -> Arc<Self> {
        let first = if tampers.is_empty() { None } else { Some(tampers.remove(0)) };
        Arc::new(Self { state: Mutex::new(InterceptState::default()), tamper: first, more: tampers, record: true })
    }
    pub fn dynamic(self: &Arc<Self>) -> DynStreamInterceptor {
        let me = Arc::clone(self);
        crate::sync::Arc::new(move |ctx: &InspectContext, data: &mut Vec<u8>| me.peek(ctx, data))
    }
    fn peek(&self, ctx: &InspectContext, data: &mut Vec<u8>) {
        let mut st = self.state.lock().unwrap();
        match ctx {
            InspectContext::ShardMessage { .. } => {
                st.shard_msgs += 1;
            }
            InspectContext::MpcMessage { shard, source, dest, gate } => {
                let key = ChannelKey {
                    shard: shard.map_or(0, u32::from),
                    source: helper_index(*source),
                    dest: helper_index(*dest),
                    gate: gate.as_ref().to_string(),
                };
                let ordinal = {
                    let v = st.catalogue.entry(key.clone()).or_default();
                    v.push(data.len());
                    v.len() - 1
                };
                if let Some(t) = &self.tamper {
                    if t.key == key && t.ordinal == ordinal && !data.is_empty() {
                        st.fired = true;
                        let before = data.clone();
                        apply_edit(&t.edit, data);
                        st.changed = *data != before;
                    }
                }
                for t in &self.more {
                    if t.key == key && t.ordinal == ordinal && !data.is_empty() {
                        st.more_fired += 1;
                        apply_edit(&t.edit, data);
                    }
                }
            }
        }
    }
}

pub fn apply_edit(e: &Edit, data: &mut Vec<u8>) {
    let n = data.len();
    match e {
        Edit::BitFlip { byte, bit } => data[byte % n] ^= 1 << (bit % 8),
        Edit::XorAll { pattern } => {
            for b in data.iter_mut() {
                *b ^= (*pattern).max(1);
            }
        }
        Edit::Replace { pattern } => {
            for (i, b) in data.iter_mut().enumerate() {
                *b = pattern.wrapping_add(i as u8);
            }
        }
        Edit::Fp25519Add { record, lanes_per_record, errors } => {
            use crate::ff::{Serializable, ec_prime_field::Fp25519};
            let rec_bytes = lanes_per_record * 32;
            let recs = (n / rec_bytes).max(1);
            let base = (record % recs) * rec_bytes;
            for (lane, e) in errors {
                let off = base + (lane % lanes_per_record) * 32;
                if off + 32 > n {
                    continue;
                }
                let ga = |b: &[u8]| generic_array::GenericArray::<u8, typenum::U32>::from(<[u8; 32]>::try_from(b).unwrap());
                let v = Fp25519::deserialize_infallible(&ga(&data[off..off + 32])) + Fp25519::deserialize_infallible(&ga(e));
                let mut out = generic_array::GenericArray::<u8, typenum::U32>::default();
                v.serialize(&mut out);
                data[off..off + 32].copy_from_slice(&out);
            }
        }
        Edit::RistrettoAdd { elem, scalar } => {
            use crate::ff::{Serializable, curve_points::RP25519, ec_prime_field::Fp25519};
            let elems = (n / 32).max(1);
            let off = (elem % elems) * 32;
            if off + 32 > n {
                data[0] ^= 1;
                return;
            }
            let ga = |b: &[u8]| generic_array::GenericArray::<u8, typenum::U32>::from(<[u8; 32]>::try_from(b).unwrap());
            match RP25519::deserialize(&ga(&data[off..off + 32])) {
                Ok(p) => {
                    let v = p + RP25519::from(Fp25519::deserialize_infallible(&ga(scalar)));
                    let mut out = generic_array::GenericArray::<u8, typenum::U32>::default();
                    v.serialize(&mut out);
                    data[off..off + 32].copy_from_slice(&out);
                }
                Err(_) => data[off] ^= 1,
            }
        }
        Edit::AddLe { elem, stride, width, delta, modulus } => {
            let w = (*width).min(16).max(1);
            let stride = (*stride).max(w);
            if n < stride {
                data[0] ^= 1;
                return;
            }
            let elems = n / stride;
            let off = (elem % elems) * stride;
            let mut buf = [0u8; 16];
            buf[..w].copy_from_slice(&data[off..off + w]);
            let v = u128::from_le_bytes(buf);
            let mask = if w == 16 { u128::MAX } else { (1u128 << (8 * w)) - 1 };
            let nv = match modulus {
                Some(m) => (v % m + delta % m) % m,
                None => v.wrapping_add(*delta) & mask,
            };
            data[off..off + w].copy_from_slice(&nv.to_le_bytes()[..w]);
        }
    }
}

// ------------------------------------------------------------------------------------------
// hybrid protocol runner
// ------------------------------------------------------------------------------------------

#[derive(Clone, Copy, Debug, PartialEq, Eq, Hash)]
pub enum Pad {
    None,
    Tiny,
    Relaxed,
    Default,
}

impl Pad {
    pub fn params(self) -> PaddingParameters {
        match self {
            Pad::None => PaddingParameters::no_padding(),
            Pad::Tiny => PaddingParameters {
                aggregation_padding: AggregationPadding::Parameters {
                    aggregation_epsilon: 20.0,
                    aggregation_delta: 1e-2,
                    aggregation_padding_sensitivity: 1,
                },
                oprf_padding: OPRFPadding::Parameters {
                    oprf_epsilon: 20.0,
                    oprf_delta: 1e-2,
                    matchkey_cardinality_cap: 3,
                    oprf_padding_sensitivity: 2,
                },
            },
            Pad::Relaxed => PaddingParameters::relaxed(),
            Pad::Default => PaddingParameters::default(),
        }
    }
}

#[derive(Clone, Debug)]
pub struct HybridCfg {
    pub shards: usize,
    pub malicious: bool,
    pub pad: Pad,
    pub hv_bits: u32,
    /// 0 = current-thread runtime, otherwise number of tokio workers
    pub workers: usize,
    pub world_seed: u64,
    pub share_seed: u64,
    /// shard of each input row
    pub assign: Vec<usize>,
    pub timeout: Duration,
    pub tamper: Option<Tamper>,
    /// further edits applied in the same run (a deviating helper that also falsifies its own view)
    pub more_tampers: Vec<Tamper>,
    /// stop as soon as a helper in this set (bitmask over helper indices) fails; 0b111 = any
    pub stop_on_error_of: u8,
    /// once a helper outside that set (the corrupt one) has failed, the others get this much more
    /// time: whoever still needs a message from it will never finish
    pub grace_after_other_failure: Option<Duration>,
}

impl HybridCfg {
    pub fn json(&self) -> Value {
        json!({"shards": self.shards, "malicious": self.malicious, "pad": format!("{:?}", self.pad), "hv_bits": self.hv_bits,
               "workers": self.workers, "world_seed": self.world_seed.to_string(), "share_seed": self.share_seed.to_string(), "assign": self.assign})
    }
}

#[derive(Clone, Debug)]
pub enum HelperOutcome {
    /// output shares as (left, right) integers
    Ok(Vec<(u128, u128)>),
    Err { variant: String, display: String },
    Panic { loc: String, msg: String },
}

impl HelperOutcome {
    pub fn is_ok(&self) -> bool {
        matches!(self, HelperOutcome::Ok(_))
    }
    pub fn describe(&self) -> String {
        match self {
            HelperOutcome::Ok(v) => format!("Ok({} shares)", v.len()),
            HelperOutcome::Err { variant, display } => format!("Err({variant}: {display})"),
            HelperOutcome::Panic { loc, msg } => format!("panic at {loc}: {msg}"),
        }
    }
}

pub struct RunResult {
    /// [helper][shard]
    pub outcomes: Vec<Vec<Option<HelperOutcome>>>,
    pub timed_out: bool,
    pub elapsed: Duration,
    pub catalogue: BTreeMap<ChannelKey, Vec<usize>>,
    pub tamper_fired: bool,
    pub tamper_changed: bool,
}

impl RunResult {
    pub fn all_ok(&self) -> bool {
        !self.timed_out && self.outcomes.iter().flatten().all(|o| o.as_ref().is_some_and(HelperOutcome::is_ok))
    }
    pub fn first_failure(&self) -> Option<(usize, usize, &HelperOutcome)> {
        for (h, per) in self.outcomes.iter().enumerate() {
            for (s, o) in per.iter().enumerate() {
                if let Some(o) = o {
                    if !o.is_ok() {
                        return Some((h, s, o));
                    }
                }
            }
        }
        None
    }
    pub fn summary(&self) -> Value {
        json!({
            "timed_out": self.timed_out,
            "elapsed_ms": self.elapsed.as_millis() as u64,
            "outcomes": self.outcomes.iter().map(|per| per.iter().map(|o| o.as_ref().map_or("pending".to_string(), HelperOutcome::describe)).collect::<Vec<_>>()).collect::<Vec<_>>(),
        })
    }
    /// Reconstruct the histogram held by the leader shard from all three helpers, checking the
    /// replicated-share consistency and that follower shards hold nothing.
    pub fn reconstruct_leader(&self) -> Result<Vec<u128>, String> {
        let mut leader: Vec<&Vec<(u128, u128)>> = vec![];
        for h in 0..3 {
            for (s, o) in self.outcomes[h].iter().enumerate() {
                match o {
                    Some(HelperOutcome::Ok(v)) => {
                        if s == 0 {
                            leader.push(v);
                        }
                    }
                    other => return Err(format!("helper {h} shard {s}: {}", other.as_ref().map_or("no output".into(), HelperOutcome::describe))),
                }
            }
        }
        // follower shards contribute nothing: their output is empty, or (empty query) a consistent
        // sharing of zeros
        for s in 1..self.outcomes[0].len() {
            let f: Vec<&Vec<(u128, u128)>> = (0..3)
                .map(|h| match &self.outcomes[h][s] {
                    Some(HelperOutcome::Ok(v)) => v,
                    _ => unreachable!(),
                })
                .collect();
            let r = reconstruct3(f[0], f[1], f[2], u128::MAX).map_err(|e| format!("follower shard {s}: {e}"))?;
            if r.iter().any(|v| *v != 0) {
                return Err(format!("follower shard {s} returned a non-zero output"));
            }
        }
        reconstruct3(leader[0], leader[1], leader[2], u128::MAX)
    }
}

/// XOR-reconstruct Boolean-array shares with the consistency checks right(i) == left(i+1)
pub fn reconstruct3(h1: &[(u128, u128)], h2: &[(u128, u128)], h3: &[(u128, u128)], _mask: u128) -> Result<Vec<u128>, String> {
    if h1.len() != h2.len() || h2.len() != h3.len() {
        return Err(format!("helpers returned {} / {} / {} shares", h1.len(), h2.len(), h3.len()));
    }
    let mut out = Vec::with_capacity(h1.len());
    for i in 0..h1.len() {
        if h1[i].1 != h2[i].0 || h2[i].1 != h3[i].0 || h3[i].1 != h1[i].0 {
            return Err(format!("inconsistent replicated sharing at index {i}"));
        }
        out.push(h1[i].0 ^ h2[i].0 ^ h3[i].0);
    }
    Ok(out)
}

/// Reconstruct from two helpers only (C02): helper a's (left,right) and helper b = a+1's.
/// The three distinct shares are a.left, a.right (= b.left, must agree) and b.right.
pub fn reconstruct2(a: &[(u128, u128)], b: &[(u128, u128)]) -> Result<Vec<u128>, String> {
    if a.len() != b.len() {
        return Err(format!("honest helpers returned {} / {} shares", a.len(), b.len()));
    }
    let mut out = Vec::with_capacity(a.len());
    for i in 0..a.len() {
        if a[i].1 != b[i].0 {
            return Err(format!("honest helpers disagree on their common share at index {i}"));
        }
        out.push(a[i].0 ^ a[i].1 ^ b[i].1);
    }
    Ok(out)
}

fn err_variant(e: &Error) -> String {
    let d = format!("{e:?}");
    d.split(|c: char| !(c.is_alphanumeric() || c == '_')).next().unwrap_or("").to_string()
}

type Report = IndistinguishableHybridReport<BA8, BA3>;

fn share_rows(rows: &[Row], seed: u64) -> [Vec<Report>; 3] {
    let mut rng = StdRng::seed_from_u64(seed);
    let mut out: [Vec<Report>; 3] = [vec![], vec![], vec![]];
    for r in rows {
        let mk: [Replicated<BA64>; 3] = BA64::truncate_from(u128::from(r.mk)).share_with(&mut rng);
        let bk: [Replicated<BA8>; 3] = BA8::truncate_from(u128::from(r.bk())).share_with(&mut rng);
        let v: [Replicated<BA3>; 3] = BA3::truncate_from(u128::from(r.value())).share_with(&mut rng);
        for (i, ((mk, bk), v)) in mk.into_iter().zip(bk).zip(v).enumerate() {
            out[i].push(Report { match_key: mk, value: v, breakdown_key: bk });
        }
    }
    out
}

macro_rules! hv_to_pairs {
    ($v:expr) => {
        $v.into_iter().map(|s| (s.left().as_u128(), s.right().as_u128())).collect::<Vec<(u128, u128)>>()
    };
}

pub async fn drive<'a, F>(futs: Vec<(usize, usize, F)>, shards: usize, cfg: &HybridCfg) -> (Vec<Vec<Option<HelperOutcome>>>, bool)
where
    F: std::future::Future<Output = Result<Vec<(u128, u128)>, Error>> + 'a,
{
    let mut outcomes: Vec<Vec<Option<HelperOutcome>>> = vec![vec![None; shards]; 3];
    let mut pending: FuturesUnordered<_> = futs
        .into_iter()
        .map(|(h, s, f)| async move {
            let _ = take_last_panic();
            let r = AssertUnwindSafe(f).catch_unwind().await;
            let o = match r {
                Ok(Ok(v)) => HelperOutcome::Ok(v),
                Ok(Err(e)) => HelperOutcome::Err { variant: err_variant(&e), display: e.to_string() },
                Err(p) => {
                    let msg = panic_message(&p);
                    let (loc, m2) = take_last_panic().unwrap_or_else(|| ("?".into(), msg.clone()));
                    HelperOutcome::Panic { loc: strip_repo_prefix(&loc), msg: if m2.is_empty() { msg } else { m2 } }
                }
            };
            (h, s, o)
        })
        .collect();
    let mut deadline = tokio::time::Instant::now() + cfg.timeout;
    let mut timed_out = false;
    loop {
        match tokio::time::timeout_at(deadline, pending.next()).await {
            Ok(Some((h, s, o))) => {
                let stop = !o.is_ok() && (cfg.stop_on_error_of >> h) & 1 == 1;
                if !o.is_ok() && !stop {
                    if let Some(g) = cfg.grace_after_other_failure {
                        deadline = deadline.min(tokio::time::Instant::now() + g);
                    }
                }
                outcomes[h][s] = Some(o);
                if stop {
                    break;
                }
            }
            Ok(None) => break,
            Err(_) => {
                timed_out = true;
                break;
            }
        }
    }
    // cancelling helpers that hold unverified multiplications panics by design (drop guard);
    // that is not an outcome of the case
    let _ = catch(move || drop(pending));
    (outcomes, timed_out)
}

async fn run_hybrid_in<const S: usize>(cfg: &HybridCfg, rows: &[Row]) -> RunResult {
    let icpt = match &cfg.tamper {
        Some(t) => Interceptor::new_multi(std::iter::once(t.clone()).chain(cfg.more_tampers.iter().cloned()).collect()),
        None => Interceptor::new(None),
    };
    let mut wc = TestWorldConfig::default();
    wc.seed = cfg.world_seed;
    wc.stream_interceptor = icpt.dynamic();
    wc.timeout = None;
    // with compact gates a world serves one protocol, rooted at its step
    #[cfg(compact_gate)]
    {
        use ipa_step::StepNarrow;
        wc.initial_gate = Some(crate::protocol::Gate::default().narrow(&crate::protocol::step::ProtocolStep::Hybrid));
    }
    let t0 = Instant::now();
    let world = TestWorld::<WithShards<S>>::with_shards(&wc);
    let shares = share_rows(rows, cfg.share_seed);
    // distribute rows to shards following cfg.assign
    let mut per: Vec<Vec<Vec<Report>>> = (0..3).map(|_| (0..S).map(|_| vec![]).collect()).collect();
    for (h, hs) in shares.into_iter().enumerate() {
        for (i, r) in hs.into_iter().enumerate() {
            per[h][cfg.assign[i] % S].push(r);
        }
    }
    let pad = cfg.pad.params();
    let (outcomes, timed_out) = {
        macro_rules! go {
            ($ctxs:expr, $hv:ty) => {{
                let ctxs = $ctxs;
                let mut futs = vec![];
                for (h, (hc, hrows)) in ctxs.into_iter().zip(per.into_iter()).enumerate() {
                    for (s, (ctx, rows)) in hc.into_iter().zip(hrows.into_iter()).enumerate() {
                        futs.push((h, s, async move {
                            let r = hybrid_protocol::<_, BA8, BA3, $hv, 3, 256>(ctx, rows, DpMechanism::NoDp, pad).await?;
                            Ok::<_, Error>(hv_to_pairs!(r))
                        }));
                    }
                }
                drive(futs, S, cfg).await
            }};
        }
        match (cfg.malicious, cfg.hv_bits) {
            (false, 8) => go!(world.contexts(), BA8),
            (false, 16) => go!(world.contexts(), BA16),
            (false, _) => go!(world.contexts(), BA32),
            (true, 8) => go!(world.malicious_contexts(), BA8),
            (true, 16) => go!(world.malicious_contexts(), BA16),
            (true, _) => go!(world.malicious_contexts(), BA32),
        }
    };
    let elapsed = t0.elapsed();
    let _ = catch(move || drop(world));
    let st = icpt.state.lock().unwrap();
    RunResult { outcomes, timed_out, elapsed, catalogue: st.catalogue.clone(), tamper_fired: st.fired, tamper_changed: st.changed }
}

/// Run the whole hybrid protocol on `rows` in a fresh world and runtime.
pub fn run_hybrid(cfg: &HybridCfg, rows: &[Row]) -> RunResult {
    macro_rules! with_s {
        ($s:literal) => {{
            let fut = run_hybrid_in::<$s>(cfg, rows);
            if cfg.workers == 0 { block_on(fut) } else { block_on_mt(cfg.workers, fut) }
        }};
    }
    match cfg.shards {
        1 => with_s!(1),
        2 => with_s!(2),
        3 => with_s!(3),
        _ => with_s!(5),
    }
}
