#!/bin/sh
# usage: mkagent.sh <name>  - creates an isolated workspace /tmp/ag-<name> (copy of /verif without build output,
# and a git worktree of /repo) for parallel harness development.
set -e
n=$1; d=/tmp/ag-$n
mkdir -p $d
rsync -a --exclude target --exclude .git /verif/ $d/verif/
git -C /repo worktree add --detach $d/repo HEAD >/dev/null 2>&1
echo "export VERIF_REPO=$d/repo IPA_VERIF_DIR=$d/verif/harness VERIF_TARGET=$d/verif/target/e1" > $d/env.sh
echo $d
