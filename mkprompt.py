#!/usr/bin/env python3
"""usage: mkprompt.py <PROP> <suffix> [focus-file ...]  - writes /tmp/seed-prompt-<PROP><suffix>.md for a
seeded-change author working in /tmp/seed-<prop><suffix>. The prompt contains only the property text (statement,
quantifier, anchor files); the optional focus files (taken from the property's own anchors) steer a second-round
author to a different part of the anchored code than the first round touched. A suffix that starts with
`n` selects the template for BENIGN changes (property-preserving refactors: probes for false alarms)."""
import json, sys
prop, suffix, focus = sys.argv[1], sys.argv[2], sys.argv[3:]
p = next(json.loads(l) for l in open('/verif/properties.jsonl') if json.loads(l)['id'] == prop)
wt = f"/tmp/seed-{prop.lower()}{suffix}"
files = focus + [f for f in p['anchors']['files'] if f not in focus]
t = open('/verif/seeded/PROMPT_TEMPLATE_BENIGN.md' if suffix.startswith('n') else '/verif/seeded/PROMPT_TEMPLATE.md').read()
t = (t.replace('{WT}', wt).replace('{ID}', prop).replace('{TITLE}', p['title']).replace('{STATEMENT}', p['statement'])
      .replace('{QUANT}', p['quantifier']['text']).replace('{FILES}', ', '.join(files if focus else files[:4])))
if focus:
    t += ("\n\nAdditional instruction: make your change in (or in code called only from) " + ' or '.join(focus) +
          " - other parts of the anchored code are covered by other authors.\n")
out = f"/tmp/seed-prompt-{prop}{suffix}.md"
open(out, 'w').write(t)
print(out)
