#!/bin/sh
# usage: mkseed.sh <id>  - scratch worktree of /repo HEAD for a seeded-change author (no access to /verif needed)
set -e
d=/tmp/seed-$1
git -C /repo worktree add --detach $d HEAD >/dev/null 2>&1
echo $d
