#!/bin/sh
# usage: mut.sh <PROP> <patch-file> [check args]  - apply a mutation patch in the scratch worktree /tmp/ag-main/repo,
# run the property's quick check from a synced copy of /verif, revert.
P=$1; PATCH=$2; shift 2
exec 9>/tmp/ag-main.lock; flock 9   # one mutation run at a time (shared scratch worktree)
D=/tmp/ag-main
[ -d $D/repo ] || { mkdir -p $D/verif && git -C /repo worktree add -q --detach $D/repo HEAD; }   # scratch worktree (removed when done: git -C /repo worktree remove --force $D/repo)
git -C $D/repo checkout -q -- . && git -C $D/repo checkout -q --detach $(git -C /repo rev-parse HEAD) 2>/dev/null
rsync -a --exclude target --exclude .git --exclude evidence --exclude replays /verif/ $D/verif/
git -C $D/repo apply "$PATCH" || { echo "PATCH DOES NOT APPLY"; exit 3; }
(cd $D/verif && VERIF_REPO=$D/repo ./check $P "$@"); rc=$?
git -C $D/repo checkout -q -- .
echo "mut.sh: $P with $(basename $PATCH): exit $rc"
exit $rc
