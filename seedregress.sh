#!/bin/sh
# usage: seedregress.sh [ids...]  - re-run, for every stored seeded change (default: all), the quick tier of the
# check(s) recorded in its meta.json "caught_by"; prints one line per (seed, check): exit 1 = still caught
cd /verif
ids="$@"; [ -z "$ids" ] && ids=$(ls seeded | grep '^C[0-9][0-9]-')
for id in $ids; do
  for P in $(python3 -c "import json;print(' '.join(json.load(open('/verif/seeded/$id/meta.json'))['caught_by'].keys()))"); do
    extra=""; [ "$P" = "C01" ] && extra="--engines e1"
    out=$(./mut.sh $P /verif/seeded/$id/patch.diff $extra 2>&1 | grep -a "signature=\|^mut.sh\|DOES NOT\|harness error\|build of" | cut -c1-200)
    echo "== $id vs $P: $(echo "$out" | grep '^mut.sh' | tail -1) :: $(echo "$out" | grep -a 'signature=' | head -1 | sed 's/ ::.*//')"
  done
done
