#!/bin/sh
# development aid: run the quick tier of the given properties for several seeds without touching /verif/evidence
# usage: seedsweep.sh "C01 C02" "1 2 3 4"
EXE=$(ls -t /verif/target/e1/debug/deps/ipa_core-* | grep -v '\.d$' | head -1)
for p in $1; do for s in $2; do
  t=$(python3 -c "import json;print(json.load(open('/verif/plan.json'))['$p'].get('test','ipa_verif::run'))")
  out=$(cd /repo/ipa-core && VERIF_PROP=$p VERIF_SEED=$s VERIF_TIER=quick VERIF_OUT=/tmp/sweep-$p-$s.json VERIF_REPLAY_DIR=/tmp/sweep-replays VERIF_KNOWN=/verif/known_findings.json RUST_LOG=error RUST_MIN_STACK=67108864 $EXE --exact $t --nocapture --test-threads 1 2>&1 | grep -a "^\[verif\]\|^VIOLATION\|^  sub=")
  echo "$p seed=$s rc=$? :: $out"
done; done
