#!/bin/sh
# Builds the framework offline from files on disk: the harness test executable(s) of ipa-core with hooks on.
set -e
cd "$(dirname "$0")"
export CARGO_NET_OFFLINE=true
./check ALL-BUILD --engines "${VERIF_SETUP_ENGINES:-e1,e2,e3,e4}"
