#!/bin/sh
# usage: verify_seed.sh <seed-dir-name e.g. C03-1> <worktree e.g. /tmp/seed-c03>
# Confirms in the scratch worktree: (1) demo fails with the seeded change, (2) demo passes without it,
# (DEMO_FLAGS="--features shuttle" for a demo that needs the shuttle build)
# (3) the existing ipa-core lib tests pass with the change (only the demo tests may fail). Writes seeded/<id>/verify.log
ID=$1; WT=$2; OUT=/verif/seeded/$ID/verify.log
export CARGO_TARGET_DIR=$WT/target CARGO_NET_OFFLINE=true CARGO_PROFILE_DEV_DEBUG=0 CARGO_PROFILE_TEST_DEBUG=0
cd $WT && git reset -q --hard HEAD && git clean -fdq -e target -e seeded_out >/dev/null 2>&1
git apply /verif/seeded/$ID/patch.diff && git apply /verif/seeded/$ID/demo.diff || { echo "APPLY FAILED" > $OUT; exit 1; }
{
echo "== with seeded change: demo"; cargo test -p ipa-core --lib --offline $DEMO_FLAGS seeded_demo -- --test-threads=4 2>&1 | grep -a "^test \|^test result" | tail -15
echo "== with seeded change: whole ipa-core lib suite"; cargo test -p ipa-core --lib --offline -- --test-threads=8 2>&1 | grep -a "^test result\|FAILED\|failed" | tail -15
git apply -R /verif/seeded/$ID/patch.diff
echo "== without seeded change: demo"; cargo test -p ipa-core --lib --offline $DEMO_FLAGS seeded_demo -- --test-threads=4 2>&1 | grep -a "^test \|^test result" | tail -15
} > $OUT 2>&1
git reset -q --hard HEAD; git clean -fdq -e target -e seeded_out >/dev/null 2>&1
echo "verify_seed $ID done"; tail -3 $OUT
